package main

// C18: concrete mutations.  Every single-bit flip of every input file is classified into exactly one
// abstract region of Attest.tla (by offset for binary fields, by *decoding the result* for PEM and hex
// encoded parts), which gives per-region pools; field-aware multi-byte patterns are added per region.

import (
	"bytes"
	"crypto/elliptic"
	"crypto/x509"
	"encoding/binary"
	"encoding/hex"
	"fmt"
	"math/big"
	"runtime"
	"sort"
	"strings"
	"sync"
	"time"
)

// files of a bundle
const (
	fQuote   = "quote"
	fTcb     = "tcb"
	fTcbSig  = "tcbsig"
	fQeid    = "qeid"
	fQeidSig = "qeidsig"
	fCerts   = "certs"
)

type attEdit struct {
	F   string `json:"f"`
	Off int    `json:"off"`
	Bit int    `json:"bit"`           // 0..7: flip this bit; -1: replace bytes by Hex
	Hex string `json:"hex,omitempty"` // replacement bytes (same length as what they replace)
}

type attMut struct {
	Kind   string    `json:"kind"` // "bit", or the name of a multi-byte pattern
	Region string    `json:"region"`
	Edits  []attEdit `json:"edits"`
}

type attPool struct {
	bits map[string][]attEdit // region -> all single-bit flips classified into it
	pats map[string][]attMut  // region -> context-free multi-byte patterns
}

func newPool() *attPool { return &attPool{bits: map[string][]attEdit{}, pats: map[string][]attMut{}} }

func (p *attPool) addPat(region, kind string, edits ...attEdit) {
	p.pats[region] = append(p.pats[region], attMut{Kind: kind, Region: region, Edits: edits})
}

func repl(f string, off int, b []byte) attEdit {
	return attEdit{F: f, Off: off, Bit: -1, Hex: hex.EncodeToString(b)}
}

func applyEdits(files map[string][]byte, edits []attEdit) (map[string][]byte, error) {
	out := map[string][]byte{}
	for k, v := range files {
		out[k] = v
	}
	copied := map[string]bool{}
	for _, e := range edits {
		if !copied[e.F] {
			out[e.F] = append([]byte{}, out[e.F]...)
			copied[e.F] = true
		}
		b := out[e.F]
		if e.Bit >= 0 {
			if e.Off >= len(b) {
				return nil, fmt.Errorf("edit beyond %s", e.F)
			}
			b[e.Off] ^= 1 << uint(e.Bit)
			continue
		}
		r, err := hex.DecodeString(e.Hex)
		if err != nil || e.Off+len(r) > len(b) {
			return nil, fmt.Errorf("bad replacement in %s", e.F)
		}
		copy(b[e.Off:], r)
	}
	return out, nil
}

// parallelFor runs f(i) for i in [0,n) on all cores.
func parallelFor(n int, f func(i int)) {
	w := runtime.NumCPU()
	var wg sync.WaitGroup
	ch := make(chan int, 1024)
	for k := 0; k < w; k++ {
		wg.Add(1)
		go func() {
			defer wg.Done()
			for i := range ch {
				f(i)
			}
		}()
	}
	for i := 0; i < n; i++ {
		ch <- i
	}
	close(ch)
	wg.Wait()
}

// classify every single bit of a PEM area by decoding the mutated chain
func pemBitRegions(area []byte, orig []*x509.Certificate, prefix string, padFrom int) []string {
	out := make([]string, len(area)*8)
	parallelFor(len(area), func(i int) {
		buf := append([]byte{}, area...)
		for b := 0; b < 8; b++ {
			buf[i] ^= 1 << uint(b)
			eff := attChainEffect(orig, buf)
			buf[i] ^= 1 << uint(b)
			r := prefix + "_" + eff
			if eff == "enc" && padFrom >= 0 && i >= padFrom {
				r = "pad"
			}
			out[i*8+b] = r
		}
	})
	return out
}

func hexSigEffect(orig, mutated string) string {
	a, _ := hex.DecodeString(orig)
	b, err := hex.DecodeString(mutated)
	if err == nil && bytes.Equal(a, b) {
		return "enc"
	}
	return "val"
}

var p256N = elliptic.P256().Params().N

// malleate: (r, s) -> (r, n - s), an equally valid ECDSA signature over the same message
func malleate(sig []byte) []byte {
	out := append([]byte{}, sig...)
	s := new(big.Int).SetBytes(sig[32:64])
	s.Sub(p256N, s)
	s.FillBytes(out[32:64])
	return out
}

func flipCase(s []byte) []byte {
	out := append([]byte{}, s...)
	for i, c := range out {
		switch {
		case c >= 'a' && c <= 'z':
			out[i] = c - 32
		case c >= 'A' && c <= 'Z':
			out[i] = c + 32
		}
	}
	return out
}

// ---------------------------------------------------------------------------------------------
// quote pools

func (env *attEnv) quotePool(q *attQuote) *attPool {
	p := newPool()
	l := q.lay
	for _, r := range l.ranges {
		for off := r.a; off < r.b; off++ {
			for b := 0; b < 8; b++ {
				p.bits[r.region] = append(p.bits[r.region], attEdit{F: fQuote, Off: off, Bit: b})
			}
		}
	}
	area := q.raw[l.certData[0]:l.certData[1]]
	cls := pemBitRegions(area, q.chain, "pck", l.padFrom-l.certData[0])
	for i, r := range cls {
		p.bits[r] = append(p.bits[r], attEdit{F: fQuote, Off: l.certData[0] + i/8, Bit: i % 8})
	}
	// --- patterns ---
	// binary content regions: invert a byte in the middle of each range, zero the first range, splice from a sibling quote
	var sibling *attQuote
	for _, o := range env.sortedQuotes() {
		if o != q && o.lay.version == l.version && o.tee == q.tee {
			sibling = o
		}
	}
	byRegion := map[string][]attRange{}
	for _, r := range l.ranges {
		byRegion[r.region] = append(byRegion[r.region], r)
	}
	for _, reg := range []string{"hdr", "body_id", "body_rd", "body_attr", "body_other", "attkey", "qerep", "qerep_rd", "authdata"} {
		for _, r := range byRegion[reg] {
			mid := (r.a + r.b) / 2
			p.addPat(reg, "invert_byte", repl(fQuote, mid, []byte{q.raw[mid] ^ 0xFF}))
			fill := make([]byte, r.b-r.a)
			if bytes.Equal(fill, q.raw[r.a:r.b]) {
				for i := range fill {
					fill[i] = 0xFF
				}
			}
			p.addPat(reg, "fill", repl(fQuote, r.a, fill))
			if sibling != nil && !bytes.Equal(sibling.raw[r.a:r.b], q.raw[r.a:r.b]) && reg != "authdata" {
				p.addPat(reg, "splice_from_"+sibling.name, repl(fQuote, r.a, sibling.raw[r.a:r.b]))
			}
		}
	}
	// version / TEE type / attestation key type fields of the header
	p.addPat("hdr", "version_3_4", repl(fQuote, 0, []byte{byte(7 - l.version), 0}))
	p.addPat("hdr", "attkeytype_3", repl(fQuote, 2, []byte{3, 0}))
	// debug bit
	if q.tee == "sgx" {
		o := l.body[0] + 48
		p.addPat("body_attr", "set_debug", repl(fQuote, o, []byte{q.raw[o] | 0x02}))
	} else {
		o := l.body[0] + 120
		p.addPat("body_attr", "set_debug", repl(fQuote, o, []byte{q.raw[o] | 0x01}))
	}
	// signature values
	for _, s := range []struct {
		reg string
		rg  [2]int
	}{{"qsig", l.qsig}, {"qesig", l.qesig}} {
		sig := q.raw[s.rg[0]:s.rg[1]]
		p.addPat(s.reg, "malleate_s", repl(fQuote, s.rg[0], malleate(sig)))
		p.addPat(s.reg, "swap_r_s", repl(fQuote, s.rg[0], append(append([]byte{}, sig[32:]...), sig[:32]...)))
		p.addPat(s.reg, "zero", repl(fQuote, s.rg[0], make([]byte, 64)))
	}
	p.addPat("qsig", "use_qe_signature", repl(fQuote, l.qsig[0], q.raw[l.qesig[0]:l.qesig[1]]))
	// length / type fields
	u32 := func(v uint32) []byte { b := make([]byte, 4); binary.LittleEndian.PutUint32(b, v); return b }
	u16 := func(v uint16) []byte { b := make([]byte, 2); binary.LittleEndian.PutUint16(b, v); return b }
	sl := binary.LittleEndian.Uint32(q.raw[l.sigLenOff:])
	for _, d := range []struct {
		k string
		v uint32
	}{{"siglen+1", sl + 1}, {"siglen-1", sl - 1}, {"siglen=0", 0}, {"siglen=max", 0xFFFFFFFF}} {
		p.addPat("siglen", d.k, repl(fQuote, l.sigLenOff, u32(d.v)))
	}
	cs := binary.LittleEndian.Uint32(q.raw[l.certSizeOff:])
	pad := uint32(len(q.raw) - l.padFrom)
	p.addPat("certhdr", "certsize-1", repl(fQuote, l.certSizeOff, u32(cs-1)))
	p.addPat("certhdr", "certsize+1", repl(fQuote, l.certSizeOff, u32(cs+1)))
	p.addPat("certhdr", "certsize=0", repl(fQuote, l.certSizeOff, u32(0)))
	if pad > 1 {
		p.addPat("certhdr", "certsize-pad", repl(fQuote, l.certSizeOff, u32(cs-pad)))
	}
	p.addPat("certhdr", "certsize-27", repl(fQuote, l.certSizeOff, u32(cs-27))) // cuts into the last END line
	for _, t := range []uint16{1, 4, 6, 7} {
		p.addPat("certhdr", fmt.Sprintf("certtype=%d", t), repl(fQuote, l.certTypeOff, u16(t)))
	}
	as := binary.LittleEndian.Uint16(q.raw[l.authSizeOff:])
	p.addPat("certhdr", "authsize+1", repl(fQuote, l.authSizeOff, u16(as+1)))
	p.addPat("certhdr", "authsize-1", repl(fQuote, l.authSizeOff, u16(as-1)))
	p.addPat("certhdr", "authsize=0", repl(fQuote, l.authSizeOff, u16(0)))
	if l.outerSizeOff >= 0 {
		os := binary.LittleEndian.Uint32(q.raw[l.outerSizeOff:])
		p.addPat("certhdr", "outersize-1", repl(fQuote, l.outerSizeOff, u32(os-1)))
		p.addPat("certhdr", "outersize+1", repl(fQuote, l.outerSizeOff, u32(os+1)))
		p.addPat("certhdr", "outertype=5", repl(fQuote, l.outerSizeOff-2, u16(5)))
	}
	// trailing padding after the last PEM block
	for off := l.padFrom; off < len(q.raw); off++ {
		for _, v := range []byte{'\n', 'A', '-', 0xFF, ' '} {
			if q.raw[off] != v {
				p.addPat("pad", fmt.Sprintf("pad=%#02x", v), repl(fQuote, off, []byte{v}))
			}
		}
	}
	// certificate chain: another platform's chain, reordered chain
	for _, o := range env.sortedQuotes() {
		if o == q {
			continue
		}
		other := o.raw[o.lay.certData[0]:o.lay.padFrom]
		room := l.certData[1] - l.certData[0]
		if len(other) <= room {
			nb := make([]byte, room)
			copy(nb, other)
			p.addPat("pck_tbs", "chain_of_"+o.name, repl(fQuote, l.certData[0], nb))
		}
	}
	if blocks := pemBlocks(area[:l.padFrom-l.certData[0]]); len(blocks) == 3 {
		sw := append(append(append([]byte{}, blocks[1]...), blocks[0]...), blocks[2]...)
		p.addPat("pck_tbs", "swap_leaf_intermediate", repl(fQuote, l.certData[0], sw))
		sw2 := append(append(append([]byte{}, blocks[0]...), blocks[2]...), blocks[1]...)
		p.addPat("pck_tbs", "swap_intermediate_root", repl(fQuote, l.certData[0], sw2))
	}
	return p
}

// pemBlocks splits a PEM area into the byte spans of its blocks (each including its trailing newline).
func pemBlocks(area []byte) [][]byte {
	var out [][]byte
	const end = "-----END CERTIFICATE-----"
	for len(area) > 0 {
		i := bytes.Index(area, []byte(end))
		if i < 0 {
			break
		}
		j := i + len(end)
		for j < len(area) && (area[j] == '\n' || area[j] == '\r') {
			j++
		}
		out = append(out, area[:j])
		area = area[j:]
	}
	return out
}

// ---------------------------------------------------------------------------------------------
// collateral pools

// topLevelSpans returns, for every top-level key of a JSON object, the byte span from the opening quote of
// the key to the end of its value.
func topLevelSpans(b []byte) map[string][2]int {
	out := map[string][2]int{}
	depth, i := 0, 0
	readString := func() string {
		j := i + 1
		for j < len(b) && b[j] != '"' {
			if b[j] == '\\' {
				j++
			}
			j++
		}
		s := string(b[i+1 : j])
		i = j + 1
		return s
	}
	key, keyStart := "", -1
	for i < len(b) {
		c := b[i]
		switch {
		case c == '"':
			st := i
			s := readString()
			if depth == 1 && keyStart < 0 {
				// a key if followed by ':'
				j := i
				for j < len(b) && (b[j] == ' ' || b[j] == '\n' || b[j] == '\t') {
					j++
				}
				if j < len(b) && b[j] == ':' {
					key, keyStart = s, st
				}
			}
			continue
		case c == '{' || c == '[':
			depth++
		case c == '}' || c == ']':
			depth--
			if depth == 0 && keyStart >= 0 {
				out[key] = [2]int{keyStart, i}
				keyStart = -1
			}
		case c == ',' && depth == 1 && keyStart >= 0:
			out[key] = [2]int{keyStart, i}
			keyStart = -1
		}
		i++
	}
	return out
}

func (env *attEnv) jsonPool(p *attPool, f string, body []byte, prefix string, classes map[string]string) {
	spans := topLevelSpans(body)
	reg := make([]string, len(body))
	for i := range reg {
		reg[i] = prefix + "_other"
	}
	for k, r := range classes {
		if sp, ok := spans[k]; ok {
			for i := sp[0]; i < sp[1]; i++ {
				reg[i] = prefix + "_" + r
			}
		}
	}
	for off := range body {
		for b := 0; b < 8; b++ {
			p.bits[reg[off]] = append(p.bits[reg[off]], attEdit{F: f, Off: off, Bit: b})
		}
	}
	// patterns that keep the JSON well-formed (so that only the signature can reject them)
	val := func(k string) (int, int, bool) { // span of the value of a string / number key
		sp, ok := spans[k]
		if !ok {
			return 0, 0, false
		}
		c := bytes.IndexByte(body[sp[0]:sp[1]], ':')
		a := sp[0] + c + 1
		if body[a] == '"' {
			return a + 1, sp[1] - 1, true
		}
		return a, sp[1], true
	}
	for _, k := range []string{"issueDate", "nextUpdate"} {
		if a, _, ok := val(k); ok { // "2022-12-19T..." -> year + 1, year - 1
			y := int(body[a+3] - '0')
			p.addPat(prefix+"_dates", k+".year+1", repl(f, a+3, []byte{byte('0' + (y+1)%10)}))
			p.addPat(prefix+"_dates", k+".year-1", repl(f, a+3, []byte{byte('0' + (y+9)%10)}))
		}
	}
	if a, b, ok := val("tcbEvaluationDataNumber"); ok {
		p.addPat(prefix+"_eval", "eval=99..", repl(f, a, bytes.Repeat([]byte{'9'}, b-a)))
		p.addPat(prefix+"_eval", "eval=00..", repl(f, a, bytes.Repeat([]byte{'0'}, b-a)))
	}
	if a, b, ok := val("fmspc"); ok && prefix == "tcb" {
		p.addPat("tcb_fmspc", "fmspc_flip_case", repl(f, a, flipCase(body[a:b])))
		for _, o := range env.sortedQuotes() {
			hx := []byte(hex.EncodeToString(o.pck.fmspc))
			if !bytes.EqualFold(hx, body[a:b]) {
				p.addPat("tcb_fmspc", "fmspc_of_"+o.name, repl(f, a, hx))
				p.addPat("tcb_fmspc", "fmspc_of_"+o.name+"_upper", repl(f, a, bytes.ToUpper(hx)))
			}
		}
	}
	if prefix == "tcb" {
		// every non-acceptable status -> "UpToDate" followed by blanks (still valid JSON)
		for _, bad := range []string{"OutOfDateConfigurationNeeded", "OutOfDate", "ConfigurationNeeded", "ConfigurationAndSWHardeningNeeded", "Revoked"} {
			needle := []byte(`"tcbStatus":"` + bad + `"`)
			from := 0
			n := 0
			for n < 3 {
				i := bytes.Index(body[from:], needle)
				if i < 0 {
					break
				}
				at := from + i
				nv := []byte(`"tcbStatus":"UpToDate"` + strings.Repeat(" ", len(bad)-len("UpToDate")))
				p.addPat("tcb_levels", "status_"+bad+"_to_UpToDate", repl(f, at, nv))
				from = at + len(needle)
				n++
			}
		}
		// lower every required SVN of the first level to 0 (so that any platform matches it)
		if sp, ok := spans["tcbLevels"]; ok {
			seg := body[sp[0]:sp[1]]
			end := bytes.Index(seg, []byte(`"tcbStatus"`))
			if end > 0 {
				var edits []attEdit
				needle := []byte(`"svn":`)
				from := 0
				for {
					i := bytes.Index(seg[from:end], needle)
					if i < 0 {
						break
					}
					a := from + i + len(needle)
					b := a
					for seg[b] >= '0' && seg[b] <= '9' {
						b++
					}
					if !bytes.Equal(seg[a:b], bytes.Repeat([]byte{'0'}, b-a)) {
						edits = append(edits, repl(f, sp[0]+a, bytes.Repeat([]byte{'0'}, b-a)))
					}
					from = b
				}
				if len(edits) > 0 {
					p.addPat("tcb_levels", "first_level_svns=0", edits...)
				}
			}
		}
	}
	mid := len(body) / 2
	p.addPat(reg[mid], "invert_byte", repl(f, mid, []byte{body[mid] ^ 0xFF}))
	p.addPat(reg[1], "invert_byte", repl(f, 1, []byte{body[1] ^ 0xFF}))
}

func hexSigPool(p *attPool, f, sig, prefix string, otherSig string) {
	for off := 0; off < len(sig); off++ {
		for b := 0; b < 8; b++ {
			m := []byte(sig)
			m[off] ^= 1 << uint(b)
			r := prefix + "_" + hexSigEffect(sig, string(m))
			p.bits[r] = append(p.bits[r], attEdit{F: f, Off: off, Bit: b})
		}
	}
	raw, _ := hex.DecodeString(sig)
	enc := func(b []byte) []byte { return []byte(hex.EncodeToString(b)) }
	p.addPat(prefix+"_val", "malleate_s", repl(f, 0, enc(malleate(raw))))
	p.addPat(prefix+"_val", "zero", repl(f, 0, enc(make([]byte, 64))))
	p.addPat(prefix+"_val", "swap_r_s", repl(f, 0, enc(append(append([]byte{}, raw[32:]...), raw[:32]...))))
	if otherSig != "" && otherSig != sig && len(otherSig) == len(sig) {
		p.addPat(prefix+"_val", "signature_of_other_document", repl(f, 0, []byte(otherSig)))
	}
	if fc := flipCase([]byte(sig)); !bytes.Equal(fc, []byte(sig)) {
		p.addPat(prefix+"_enc", "flip_hex_case", repl(f, 0, fc))
	}
}

func (env *attEnv) tcbPool(c *attColl) *attPool {
	p := newPool()
	env.jsonPool(p, fTcb, c.tcbBody, "tcb", map[string]string{"issueDate": "dates", "nextUpdate": "dates",
		"tcbEvaluationDataNumber": "eval", "fmspc": "fmspc", "tcbLevels": "levels", "tdxModule": "levels", "tdxModuleIdentities": "levels"})
	hexSigPool(p, fTcbSig, c.tcbSig, "tcbsig", c.qeSig)
	return p
}

func (env *attEnv) qeidPool(c *attColl) *attPool {
	p := newPool()
	env.jsonPool(p, fQeid, c.qeBody, "qeid", map[string]string{"issueDate": "dates", "nextUpdate": "dates", "tcbEvaluationDataNumber": "eval"})
	hexSigPool(p, fQeidSig, c.qeSig, "qeidsig", c.tcbSig)
	return p
}

func (env *attEnv) certsPool() *attPool {
	p := newPool()
	cls := pemBitRegions(env.certs, env.signCh, "sign", -1)
	for i, r := range cls {
		p.bits[r] = append(p.bits[r], attEdit{F: fCerts, Off: i / 8, Bit: i % 8})
	}
	if bl := pemBlocks(env.certs); len(bl) == 2 {
		p.addPat("sign_tbs", "swap_signer_root", repl(fCerts, 0, append(append([]byte{}, bl[1]...), bl[0]...)))
		if len(bl[0]) >= len(bl[1]) { // root twice (a self-signed chain that does verify, but is not the TCB signer)
			nb := append(append([]byte{}, bl[1]...), bl[1]...)
			for len(nb) < len(env.certs) {
				nb = append(nb, '\n')
			}
			if len(nb) == len(env.certs) {
				p.addPat("sign_tbs", "root_as_signer", repl(fCerts, 0, nb))
			}
		}
	}
	// the PCK platform CA (a valid Intel-issued certificate, but not the TCB signer) in place of the signer
	for _, q := range env.sortedQuotes() {
		blocks := pemBlocks(q.raw[q.lay.certData[0]:q.lay.padFrom])
		sb := pemBlocks(env.certs)
		if len(blocks) == 3 && len(sb) == 2 && len(blocks[1])+len(sb[1]) <= len(env.certs) {
			nb := append(append([]byte{}, blocks[1]...), sb[1]...)
			for len(nb) < len(env.certs) {
				nb = append(nb, '\n')
			}
			p.addPat("sign_tbs", "pck_platform_ca_as_signer", repl(fCerts, 0, nb))
			break
		}
	}
	return p
}

// ---------------------------------------------------------------------------------------------
// context-dependent patterns (need the case's time / the quote's PCK)

func (env *attEnv) contextPatterns(region string, sc *attScen, ts time.Time) []attMut {
	var out []attMut
	mk := func(f string, body []byte, key, kind string, nv func(old []byte) []byte) {
		sp, ok := topLevelSpans(body)[key]
		if !ok {
			return
		}
		c := bytes.IndexByte(body[sp[0]:sp[1]], ':')
		a, b := sp[0]+c+2, sp[1]-1
		n := nv(body[a:b])
		if n != nil && len(n) == b-a && !bytes.Equal(n, body[a:b]) {
			out = append(out, attMut{Kind: kind, Region: region, Edits: []attEdit{repl(f, a, n)}})
		}
	}
	stamp := func(t time.Time) func([]byte) []byte {
		return func(old []byte) []byte { return []byte(t.UTC().Format("2006-01-02T15:04:05Z")) }
	}
	switch region {
	case "tcb_dates":
		b := env.colls[sc.TcbSet].tcbBody
		mk(fTcb, b, "issueDate", "issueDate=ts-1h", stamp(ts.Add(-time.Hour)))
		mk(fTcb, b, "nextUpdate", "nextUpdate=ts+1h", stamp(ts.Add(time.Hour)))
	case "qeid_dates":
		b := env.colls[sc.QeSet].qeBody
		mk(fQeid, b, "issueDate", "issueDate=ts-1h", stamp(ts.Add(-time.Hour)))
		mk(fQeid, b, "nextUpdate", "nextUpdate=ts+1h", stamp(ts.Add(time.Hour)))
	}
	return out
}

func sortedKeys[V any](m map[string]V) []string {
	var ks []string
	for k := range m {
		ks = append(ks, k)
	}
	sort.Strings(ks)
	return ks
}

func (env *attEnv) sortedQuotes() []*attQuote {
	var out []*attQuote
	for _, k := range sortedKeys(env.quotes) {
		out = append(out, env.quotes[k])
	}
	return out
}
