package main

// C18, Quoting Enclave identity leg (specs/attest/TraceQE.tla).  The report of the Quoting Enclave inside a quote is covered by the
// PCK signature, so mutations of a recorded quote never reach the comparison of that report with Intel's signed QE identity
// (MRSIGNER, ISVPRODID, MISCSELECT and ATTRIBUTES under their masks, ISVSVN against the TCB levels).  This leg calls the exported
// TCBBundle.Verify - the entry point quote verification uses after the signature checks - with the genuine platform data of each
// vector and a QE report that differs from the genuine one in exactly one bit of one of those fields (or in its ISVSVN), and
// records what the code decided together with the ground truth read from the identity document independently of the code.

import (
	"encoding/binary"
	"encoding/hex"
	"encoding/json"
	"flag"
	"fmt"
	"os"
	"path/filepath"
	"time"

	"github.com/oasisprotocol/oasis-core/go/common/sgx/pcs"
)

func init() {
	register("attest-qe", "C18: single-bit changes of the Quoting Enclave report against the signed QE identity (TCBBundle.Verify)", attestQE)
}

func attestQE(args []string) int {
	fs := flag.NewFlagSet("attest-qe", flag.ExitOnError)
	out := fs.String("out", "-", "ndjson trace")
	fs.Parse(args)
	w, err := openOut(*out)
	if err != nil {
		return 2
	}
	defer w.Close()
	td := attTestdata()
	type vec struct {
		name, quote, tcb, qe string
		tee                  pcs.TeeType
		now                  time.Time
		policy               *pcs.QuotePolicy
		off                  int // offset of the QE report in the raw quote
	}
	const hdr, sgxRep, tdRep = 48, 384, 584
	vecs := []vec{
		{"sgx", "quote_v3_ecdsa_p256_pck_chain.bin", "tcb_info_v3_fmspc_00606A000000.json", "qe_identity_v2.json", pcs.TeeTypeSGX, time.Unix(1671497404, 0),
			&pcs.QuotePolicy{TCBValidityPeriod: 30, MinTCBEvaluationDataNumber: 12}, hdr + sgxRep + 4 + 64 + 64},
		{"tdx", "quote_v4_tdx_ecdsa_p256.bin", "tcb_info_v3_tdx_fmspc_C0806F000000.json", "qe_identity_v2_tdx2.json", pcs.TeeTypeTDX, time.Unix(1725263032, 0),
			&pcs.QuotePolicy{TCBValidityPeriod: 30, MinTCBEvaluationDataNumber: 12, TDX: &pcs.TdxQuotePolicy{}}, hdr + tdRep + 4 + 64 + 64 + 6},
	}
	emit := func(m map[string]any) { w.Write(append(mustJSON(m), '\n')) }
	n := 0
	for _, v := range vecs {
		rd := func(f string) []byte {
			b, err := os.ReadFile(filepath.Join(td, f))
			if err != nil {
				panic(err)
			}
			return b
		}
		raw := rd(v.quote)
		var q pcs.Quote
		if err := q.UnmarshalBinary(raw); err != nil {
			fmt.Fprintln(os.Stderr, "attest-qe:", err)
			return 2
		}
		var bnd pcs.TCBBundle
		if json.Unmarshal(rd(v.tcb), &bnd.TCBInfo) != nil || json.Unmarshal(rd(v.qe), &bnd.QEIdentity) != nil {
			fmt.Fprintln(os.Stderr, "attest-qe: collateral")
			return 2
		}
		bnd.Certificates = rd("tcb_info_v3_fmspc_00606A000000_certs.pem")
		sig, ok := q.Signature().(*pcs.QuoteSignatureECDSA_P256)
		if !ok {
			return 2
		}
		pck, err := sig.VerifyPCK(v.now)
		if err != nil {
			fmt.Fprintln(os.Stderr, "attest-qe: pck:", err)
			return 2
		}
		var tdxSvn *[16]byte
		if v.tee == pcs.TeeTypeTDX {
			var s [16]byte
			copy(s[:], raw[hdr:hdr+16])
			tdxSvn = &s
		}
		// ground truth from the identity document, decoded here
		var doc struct {
			EnclaveIdentity struct {
				MiscselectMask string `json:"miscselectMask"`
				AttributesMask string `json:"attributesMask"`
				TCBLevels      []struct {
					TCB struct {
						ISVSVN uint16 `json:"isvsvn"`
					} `json:"tcb"`
					Status string `json:"tcbStatus"`
				} `json:"tcbLevels"`
			} `json:"enclaveIdentity"`
		}
		if json.Unmarshal(rd(v.qe), &doc) != nil {
			return 2
		}
		mm, _ := hex.DecodeString(doc.EnclaveIdentity.MiscselectMask)
		am, _ := hex.DecodeString(doc.EnclaveIdentity.AttributesMask)
		if len(mm) != 4 || len(am) != 16 {
			fmt.Fprintln(os.Stderr, "attest-qe: masks")
			return 2
		}
		minSvn := uint16(0xffff)
		for _, l := range doc.EnclaveIdentity.TCBLevels {
			if l.TCB.ISVSVN < minSvn {
				minSvn = l.TCB.ISVSVN
			}
		}
		orig := raw[v.off : v.off+sgxRep]
		verify := func(rep []byte) (accepted bool, panicked bool) {
			perr := guard(func() {
				var r pcs.SgxReport
				if r.UnmarshalBinary(rep) != nil {
					return
				}
				accepted = bnd.Verify(v.tee, v.now, v.policy, pck.FMSPC, pck.TCBCompSVN, tdxSvn, pck.PCESVN, &r) == nil
			})
			return accepted, perr != nil
		}
		emit(map[string]any{"ev": "begin", "vector": v.name})
		acc, pan := verify(orig)
		emit(map[string]any{"ev": "qe", "vector": v.name, "field": "none", "bit": 0, "masked": false, "below": false, "accepted": acc, "panic": pan})
		n++
		// report body layout: CPUSVN 0..16, MISCSELECT 16..20, reserved, ATTRIBUTES flags 48..56 xfrm 56..64, MRENCLAVE 64..96,
		// reserved, MRSIGNER 128..160, reserved, ISVPRODID 256..258, ISVSVN 258..260, reserved, REPORTDATA 320..384
		fields := []struct {
			name     string
			off, len int
			mask     []byte // nil: every bit is bound
		}{
			{"miscselect", 16, 4, mm}, {"flags", 48, 8, am[:8]}, {"xfrm", 56, 8, am[8:]}, {"mrsigner", 128, 32, nil}, {"isvprodid", 256, 2, nil},
		}
		for _, f := range fields {
			for bit := 0; bit < f.len*8; bit++ {
				rep := append([]byte{}, orig...)
				rep[f.off+bit/8] ^= 1 << uint(bit%8)
				masked := f.mask == nil || f.mask[bit/8]&(1<<uint(bit%8)) != 0
				acc, pan := verify(rep)
				emit(map[string]any{"ev": "qe", "vector": v.name, "field": f.name, "bit": bit, "masked": masked, "below": false, "accepted": acc, "panic": pan})
				n++
			}
		}
		cur := binary.LittleEndian.Uint16(orig[258:])
		for _, svn := range []uint16{0, 1, minSvn - 1, minSvn, cur - 1, cur, cur + 1, 0xffff} {
			rep := append([]byte{}, orig...)
			binary.LittleEndian.PutUint16(rep[258:], svn)
			acc, pan := verify(rep)
			emit(map[string]any{"ev": "qe", "vector": v.name, "field": "isvsvn", "bit": int(svn), "masked": true, "below": svn < minSvn, "accepted": acc, "panic": pan})
			n++
		}
	}
	fmt.Fprintf(os.Stderr, "attest-qe: %d cases\n", n)
	return 0
}
