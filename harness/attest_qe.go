package main

// C18, Quoting Enclave identity leg (specs/attest/TraceQE.tla).  The report of the Quoting Enclave inside a quote is covered by the
// PCK signature, so mutations of a recorded quote never reach the comparison of that report with Intel's signed QE identity
// (MRSIGNER, ISVPRODID, MISCSELECT and ATTRIBUTES under their masks, ISVSVN against the TCB levels).  This leg calls the exported
// TCBBundle.Verify - the entry point quote verification uses after the signature checks - with the genuine platform data of each
// vector and a QE report that differs from the genuine one in exactly one bit of one of those fields (or in its ISVSVN), and
// records what the code decided together with the ground truth read from the identity document independently of the code.

import (
	"encoding/binary"
	"encoding/hex"
	"encoding/json"
	"flag"
	"fmt"
	"os"
	"path/filepath"
	"time"

	"github.com/oasisprotocol/oasis-core/go/common/sgx/pcs"
)

func init() {
	register("attest-qe", "C18: single-bit changes of the Quoting Enclave report against the signed QE identity (TCBBundle.Verify)", attestQE)
}

func attestQE(args []string) int {
	fs := flag.NewFlagSet("attest-qe", flag.ExitOnError)
	out := fs.String("out", "-", "ndjson trace")
	fs.Parse(args)
	w, err := openOut(*out)
	if err != nil {
		return 2
	}
	defer w.Close()
	td := attTestdata()
	type vec struct {
		name, quote, tcb, qe string
		tee                  pcs.TeeType
		now                  time.Time
		policy               *pcs.QuotePolicy
		off                  int // offset of the QE report in the raw quote
	}
	const hdr, sgxRep, tdRep = 48, 384, 584
	vecs := []vec{
		{"sgx", "quote_v3_ecdsa_p256_pck_chain.bin", "tcb_info_v3_fmspc_00606A000000.json", "qe_identity_v2.json", pcs.TeeTypeSGX, time.Unix(1671497404, 0),
			&pcs.QuotePolicy{TCBValidityPeriod: 30, MinTCBEvaluationDataNumber: 12}, hdr + sgxRep + 4 + 64 + 64},
		{"tdx", "quote_v4_tdx_ecdsa_p256.bin", "tcb_info_v3_tdx_fmspc_C0806F000000.json", "qe_identity_v2_tdx2.json", pcs.TeeTypeTDX, time.Unix(1725263032, 0),
			&pcs.QuotePolicy{TCBValidityPeriod: 30, MinTCBEvaluationDataNumber: 12, TDX: &pcs.TdxQuotePolicy{}}, hdr + tdRep + 4 + 64 + 64 + 6},
	}
	emit := func(m map[string]any) { w.Write(append(mustJSON(m), '\n')) }
	n := 0
	for _, v := range vecs {
		rd := func(f string) []byte {
			b, err := os.ReadFile(filepath.Join(td, f))
			if err != nil {
				panic(err)
			}
			return b
		}
		raw := rd(v.quote)
		var q pcs.Quote
		if err := q.UnmarshalBinary(raw); err != nil {
			fmt.Fprintln(os.Stderr, "attest-qe:", err)
			return 2
		}
		var bnd pcs.TCBBundle
		if json.Unmarshal(rd(v.tcb), &bnd.TCBInfo) != nil || json.Unmarshal(rd(v.qe), &bnd.QEIdentity) != nil {
			fmt.Fprintln(os.Stderr, "attest-qe: collateral")
			return 2
		}
		bnd.Certificates = rd("tcb_info_v3_fmspc_00606A000000_certs.pem")
		sig, ok := q.Signature().(*pcs.QuoteSignatureECDSA_P256)
		if !ok {
			return 2
		}
		pck, err := sig.VerifyPCK(v.now)
		if err != nil {
			fmt.Fprintln(os.Stderr, "attest-qe: pck:", err)
			return 2
		}
		var tdxSvn *[16]byte
		if v.tee == pcs.TeeTypeTDX {
			var s [16]byte
			copy(s[:], raw[hdr:hdr+16])
			tdxSvn = &s
		}
		// ground truth from the identity document, decoded here
		var doc struct {
			EnclaveIdentity struct {
				MiscselectMask string `json:"miscselectMask"`
				AttributesMask string `json:"attributesMask"`
				TCBLevels      []struct {
					TCB struct {
						ISVSVN uint16 `json:"isvsvn"`
					} `json:"tcb"`
					Status string `json:"tcbStatus"`
				} `json:"tcbLevels"`
			} `json:"enclaveIdentity"`
		}
		if json.Unmarshal(rd(v.qe), &doc) != nil {
			return 2
		}
		mm, _ := hex.DecodeString(doc.EnclaveIdentity.MiscselectMask)
		am, _ := hex.DecodeString(doc.EnclaveIdentity.AttributesMask)
		if len(mm) != 4 || len(am) != 16 {
			fmt.Fprintln(os.Stderr, "attest-qe: masks")
			return 2
		}
		minSvn := uint16(0xffff)
		for _, l := range doc.EnclaveIdentity.TCBLevels {
			if l.TCB.ISVSVN < minSvn {
				minSvn = l.TCB.ISVSVN
			}
		}
		orig := raw[v.off : v.off+sgxRep]
		verify := func(rep []byte) (accepted bool, panicked bool) {
			perr := guard(func() {
				var r pcs.SgxReport
				if r.UnmarshalBinary(rep) != nil {
					return
				}
				accepted = bnd.Verify(v.tee, v.now, v.policy, pck.FMSPC, pck.TCBCompSVN, tdxSvn, pck.PCESVN, &r) == nil
			})
			return accepted, perr != nil
		}
		emit(map[string]any{"ev": "begin", "vector": v.name})
		acc, pan := verify(orig)
		emit(map[string]any{"ev": "qe", "vector": v.name, "field": "none", "bit": 0, "masked": false, "below": false, "accepted": acc, "panic": pan})
		n++
		// report body layout: CPUSVN 0..16, MISCSELECT 16..20, reserved, ATTRIBUTES flags 48..56 xfrm 56..64, MRENCLAVE 64..96,
		// reserved, MRSIGNER 128..160, reserved, ISVPRODID 256..258, ISVSVN 258..260, reserved, REPORTDATA 320..384
		fields := []struct {
			name     string
			off, len int
			mask     []byte // nil: every bit is bound
		}{
			{"miscselect", 16, 4, mm}, {"flags", 48, 8, am[:8]}, {"xfrm", 56, 8, am[8:]}, {"mrsigner", 128, 32, nil}, {"isvprodid", 256, 2, nil},
		}
		for _, f := range fields {
			for bit := 0; bit < f.len*8; bit++ {
				rep := append([]byte{}, orig...)
				rep[f.off+bit/8] ^= 1 << uint(bit%8)
				masked := f.mask == nil || f.mask[bit/8]&(1<<uint(bit%8)) != 0
				acc, pan := verify(rep)
				emit(map[string]any{"ev": "qe", "vector": v.name, "field": f.name, "bit": bit, "masked": masked, "below": false, "accepted": acc, "panic": pan})
				n++
			}
		}
		cur := binary.LittleEndian.Uint16(orig[258:])
		for _, svn := range []uint16{0, 1, minSvn - 1, minSvn, cur - 1, cur, cur + 1, 0xffff} {
			rep := append([]byte{}, orig...)
			binary.LittleEndian.PutUint16(rep[258:], svn)
			acc, pan := verify(rep)
			emit(map[string]any{"ev": "qe", "vector": v.name, "field": "isvsvn", "bit": int(svn), "masked": true, "below": svn < minSvn, "accepted": acc, "panic": pan})
			n++
		}
	}
	// second part: the platform's TCB components against the TCB levels of the signed TCB info.  The genuine QE report, and
	// component vectors around the levels (every SGX component, the PCE SVN, every TDX component lowered to zero and to one below
	// the newest level's requirement; TDX module version 0 and 1 with module SVNs 0..3), through the same TCBBundle.Verify.
	n2, err2 := attestTCBLevels(emit)
	if err2 != nil {
		fmt.Fprintln(os.Stderr, "attest-qe: tcb levels:", err2)
		return 2
	}
	fmt.Fprintf(os.Stderr, "attest-qe: %d QE identity cases, %d TCB level cases\n", n, n2)
	return 0
}

// tcbTruth is Intel's TCB level selection (first level all of whose components the platform reaches; for TDX module version 0 all
// sixteen TDX components count, from version 1 on components 0 and 1 are judged by the module identity) transcribed from the
// specification text; acceptable are UpToDate and SWHardeningNeeded with an UpToDate TDX module.
func tcbTruth(ti *attTCBInfo, sgx [16]int32, pce uint16, tdx *[16]byte) bool {
	status := ""
	for _, lv := range ti.Levels {
		ok := len(lv.TCB.SGX) == 16
		for i := 0; ok && i < 16; i++ {
			ok = int(sgx[i]) >= lv.TCB.SGX[i].SVN
		}
		ok = ok && int(pce) >= int(lv.TCB.PCESVN)
		if ok && tdx != nil && len(lv.TCB.TDX) == 16 {
			from := 0
			if tdx[1] != 0 {
				from = 2
			}
			for i := from; ok && i < 16; i++ {
				ok = int(tdx[i]) >= lv.TCB.TDX[i].SVN
			}
		}
		if ok {
			status = lv.Status
			break
		}
	}
	if status != "UpToDate" && status != "SWHardeningNeeded" {
		return false
	}
	if ti.ID == "TDX" && tdx != nil && tdx[1] >= 1 {
		want := fmt.Sprintf("TDX_%02d", tdx[1])
		for _, m := range ti.Modules {
			if m.ID != want {
				continue
			}
			for _, lv := range m.Levels {
				if lv.TCB.ISVSVN <= int(tdx[0]) {
					return lv.Status == "UpToDate"
				}
			}
			return false
		}
		return false
	}
	return true
}

func attestTCBLevels(emit func(map[string]any)) (int, error) {
	env, err := attLoad()
	if err != nil {
		return 0, err
	}
	td := attTestdata()
	rd := func(f string) []byte {
		b, err := os.ReadFile(filepath.Join(td, f))
		if err != nil {
			panic(err)
		}
		return b
	}
	const hdr, sgxRep, tdRep = 48, 384, 584
	n := 0
	for _, v := range []struct {
		name, quote, tcb, qe, coll string
		tee                        pcs.TeeType
		now                        time.Time
		policy                     *pcs.QuotePolicy
		off                        int
	}{
		{"sgx", "quote_v3_ecdsa_p256_pck_chain.bin", "tcb_info_v3_fmspc_00606A000000.json", "qe_identity_v2.json", "sgx", pcs.TeeTypeSGX, time.Unix(1671497404, 0),
			&pcs.QuotePolicy{TCBValidityPeriod: 30, MinTCBEvaluationDataNumber: 12}, hdr + sgxRep + 4 + 64 + 64},
		{"tdx", "quote_v4_tdx_ecdsa_p256.bin", "tcb_info_v3_tdx_fmspc_C0806F000000.json", "qe_identity_v2_tdx2.json", "tdx", pcs.TeeTypeTDX, time.Unix(1725263032, 0),
			&pcs.QuotePolicy{TCBValidityPeriod: 30, MinTCBEvaluationDataNumber: 12, TDX: &pcs.TdxQuotePolicy{}}, hdr + tdRep + 4 + 64 + 64 + 6},
	} {
		raw := rd(v.quote)
		var q pcs.Quote
		if err := q.UnmarshalBinary(raw); err != nil {
			return n, err
		}
		var bnd pcs.TCBBundle
		if json.Unmarshal(rd(v.tcb), &bnd.TCBInfo) != nil || json.Unmarshal(rd(v.qe), &bnd.QEIdentity) != nil {
			return n, fmt.Errorf("collateral")
		}
		bnd.Certificates = rd("tcb_info_v3_fmspc_00606A000000_certs.pem")
		sig, ok := q.Signature().(*pcs.QuoteSignatureECDSA_P256)
		if !ok {
			return n, fmt.Errorf("signature type")
		}
		pck, err := sig.VerifyPCK(v.now)
		if err != nil {
			return n, err
		}
		var qeRep pcs.SgxReport
		if err := qeRep.UnmarshalBinary(raw[v.off : v.off+sgxRep]); err != nil {
			return n, err
		}
		ti := &env.colls[v.coll].tcb
		var tdx0 *[16]byte
		if v.tee == pcs.TeeTypeTDX {
			var s [16]byte
			copy(s[:], raw[hdr:hdr+16])
			tdx0 = &s
		}
		try := func(variant string, sgx [16]int32, pce uint16, tdx *[16]byte) {
			var accepted bool
			perr := guard(func() {
				accepted = bnd.Verify(v.tee, v.now, v.policy, pck.FMSPC, sgx, tdx, pce, &qeRep) == nil
			})
			emit(map[string]any{"ev": "tcb", "vector": v.name, "variant": variant, "truth": tcbTruth(ti, sgx, pce, tdx), "accepted": accepted, "panic": perr != nil})
			n++
		}
		emit(map[string]any{"ev": "begin", "vector": v.name + "/tcb"})
		try("genuine", pck.TCBCompSVN, pck.PCESVN, tdx0)
		newest := ti.Levels[0]
		for i := 0; i < 16; i++ {
			for _, val := range []int32{0, int32(newest.TCB.SGX[i].SVN) - 1, int32(newest.TCB.SGX[i].SVN)} {
				if val < 0 {
					continue
				}
				c := pck.TCBCompSVN
				c[i] = val
				try(fmt.Sprintf("sgx[%d]=%d", i, val), c, pck.PCESVN, tdx0)
			}
		}
		for _, val := range []int{0, int(newest.TCB.PCESVN) - 1, int(newest.TCB.PCESVN)} {
			if val >= 0 {
				try(fmt.Sprintf("pcesvn=%d", val), pck.TCBCompSVN, uint16(val), tdx0)
			}
		}
		if tdx0 != nil && len(newest.TCB.TDX) == 16 {
			for i := 2; i < 16; i++ {
				for _, val := range []int{0, newest.TCB.TDX[i].SVN - 1, newest.TCB.TDX[i].SVN} {
					if val < 0 {
						continue
					}
					c := *tdx0
					c[i] = byte(val)
					try(fmt.Sprintf("tdx[%d]=%d", i, val), pck.TCBCompSVN, pck.PCESVN, &c)
				}
			}
			for _, ver := range []byte{0, 1, 2} {
				for svn := 0; svn <= newest.TCB.TDX[0].SVN+1; svn++ {
					c := *tdx0
					c[1], c[0] = ver, byte(svn)
					try(fmt.Sprintf("tdx module v%d svn %d", ver, svn), pck.TCBCompSVN, pck.PCESVN, &c)
				}
			}
		}
	}
	return n, nil
}
