package main

// C03 code -> spec: seeded random driver over real trees/overlays, recording an ndjson trace for TraceMkvs.tla.

import (
	"context"
	"flag"
	"fmt"
	"math/rand"
	"os"

	"github.com/oasisprotocol/oasis-core/go/storage/mkvs"
	"github.com/oasisprotocol/oasis-core/go/storage/mkvs/node"
)

func init() {
	register("mkvs-trace", "random driver on real trees/overlays; records ndjson for TraceMkvs.tla", mkvsTrace)
}

func ints(b []byte) []int {
	out := make([]int, len(b))
	for i, x := range b {
		out[i] = int(x)
	}
	return out
}

func mkvsTrace(args []string) int {
	fs := flag.NewFlagSet("mkvs-trace", flag.ExitOnError)
	out := fs.String("out", "-", "ndjson trace")
	seed := fs.Int64("seed", 1, "seed")
	n := fs.Int("n", 20, "number of traces")
	length := fs.Int("len", 200, "operations per trace")
	set := fs.String("configs", "c03", "configuration set")
	corrupt := fs.Int("corrupt", -1, "self-test: corrupt the k-th recorded event")
	fs.Parse(args)
	w, err := openOut(*out)
	if err != nil {
		return 2
	}
	defer w.Close()
	rng := rand.New(rand.NewSource(*seed))
	alpha := []byte{0, 1, 97, 128, 255}
	randKey := func() []byte {
		l := rng.Intn(4)
		k := make([]byte, l)
		for i := range k {
			k[i] = alpha[rng.Intn(len(alpha))]
		}
		return k
	}
	randVal := func() []byte {
		l := rng.Intn(4)
		v := make([]byte, l)
		for i := range v {
			v[i] = byte(1 + rng.Intn(3))
		}
		return v
	}
	cfgs := mkConfigs(*set)
	ev := 0
	emit := func(m map[string]any) {
		if ev == *corrupt {
			if v, ok := m["view"].([][2][]int); ok && len(v) > 0 {
				m["view"] = v[1:]
			} else if _, ok := m["found"]; ok {
				m["found"] = !m["found"].(bool)
				m["val"] = []int{9}
				m["prev"] = []int{9}
			} else {
				*corrupt++
			}
		}
		ev++
		w.Write(mustJSON(m))
		w.Write([]byte("\n"))
	}
	ctx := context.Background()
	for tr := 0; tr < *n; tr++ {
		cfg := cfgs[tr%len(cfgs)]
		r := &mkRun{cfg: cfg, ctx: ctx}
		switch cfg.CapClass {
		case "tight":
			r.capN = uint64(34 + rng.Intn(3)) // keys <= 3 bytes: path depth <= 25 internal nodes + slack
		case "tiny":
			r.capN = uint64(1 + rng.Intn(6))
		}
		if r.ndb, err = openNodeDB(cfg.Backend, ""); err != nil {
			fmt.Fprintln(os.Stderr, err)
			return 2
		}
		r.tree = mkvs.New(nil, r.ndb, r.rootType(), r.opts()...)
		emit(map[string]any{"ev": "begin", "config": cfg.String()})
		var keys [][]byte // keys used so far (bias re-use)
		pick := func() []byte {
			if len(keys) > 0 && rng.Intn(3) != 0 {
				return keys[rng.Intn(len(keys))]
			}
			k := randKey()
			keys = append(keys, k)
			return k
		}
		for i := 0; i < *length; i++ {
			op := mkOp{}
			x := rng.Intn(100)
			base := len(r.ovl) == 0
			switch {
			case x < 8 && r.fork != nil:
				op.A, op.K, op.V = "fins", pick(), randVal()
			case x < 12 && r.fork != nil:
				op.A, op.K = "frem", pick()
			case x < 35:
				op.A, op.K, op.V = "ins", pick(), randVal()
			case x < 45:
				op.A, op.K = "rem", pick()
			case x < 55:
				op.A, op.K = "remx", pick()
			case x < 63 && base:
				op.A = "commit"
			case x < 66 && base && r.ndb != nil:
				op.A = "reopen"
			case x < 72 && len(r.ovl) < 3:
				op.A = "onew"
			case x < 78 && !base:
				op.A = "ocommit"
			case x < 82 && !base:
				op.A = "oclose"
			case x < 84 && !base:
				op.A = "ocopy"
			case x < 85 && !base && r.fork == nil:
				op.A = "ofork"
			case x < 93:
				// read: get
				k := pick()
				var v []byte
				var gerr error
				if perr := guard(func() { v, gerr = r.top().Get(ctx, k) }); perr != nil || gerr != nil {
					emit(map[string]any{"ev": "get", "panic": fmt.Sprint(perr, gerr)})
					i = *length
					continue
				}
				emit(map[string]any{"ev": "get", "k": ints(k), "found": v != nil, "val": ints(v)})
				continue
			default:
				// read: seek + up to n nexts
				seek := randKey()
				nn := 1 + rng.Intn(3)
				items := [][2][]int{}
				var ierr error
				perr := guard(func() {
					it := r.top().NewIterator(ctx)
					defer it.Close()
					it.Seek(node.Key(seek))
					for j := 0; j < nn && it.Valid(); j++ {
						items = append(items, [2][]int{ints(it.Key()), ints(it.Value())})
						it.Next()
					}
					ierr = it.Err()
				})
				if perr != nil || ierr != nil {
					emit(map[string]any{"ev": "iter", "panic": fmt.Sprint(perr, ierr)})
					i = *length
					continue
				}
				emit(map[string]any{"ev": "iter", "seek": ints(seek), "n": nn, "items": items})
				continue
			}
			if op.A == "" {
				continue
			}
			rec := map[string]any{"ev": "op", "a": op.A, "k": ints(op.K), "v": ints(op.V)}
			if op.K == nil {
				rec["k"] = []int{}
			}
			if op.V == nil {
				rec["v"] = []int{}
			}
			var f *mkFail
			var prev []byte
			perr := guard(func() {
				if op.A == "remx" {
					var rerr error
					prev, rerr = r.top().RemoveExisting(ctx, op.K)
					if rerr != nil {
						f = failf("error", "%v", rerr)
					}
				} else {
					// the model-side expectations are not known here: mark ret as matching by construction
					f = r.applyNoCheck(&op)
				}
			})
			if perr != nil || f != nil {
				rec["panic"] = fmt.Sprint(perr, f)
				emit(rec)
				break
			}
			if op.A == "remx" {
				rec["found"], rec["prev"] = prev != nil, ints(prev)
			}
			view := [][2][]int{}
			var ierr error
			perr = guard(func() {
				it := r.top().NewIterator(ctx)
				defer it.Close()
				for it.Rewind(); it.Valid(); it.Next() {
					view = append(view, [2][]int{ints(it.Key()), ints(it.Value())})
				}
				ierr = it.Err()
			})
			if perr != nil || ierr != nil {
				rec["panic"] = fmt.Sprint(perr, ierr)
				emit(rec)
				break
			}
			rec["view"] = view
			if r.fork != nil {
				fview := [][2][]int{}
				perr = guard(func() {
					it := r.fork.NewIterator(ctx)
					defer it.Close()
					for it.Rewind(); it.Valid(); it.Next() {
						fview = append(fview, [2][]int{ints(it.Key()), ints(it.Value())})
					}
					ierr = it.Err()
				})
				if perr != nil || ierr != nil {
					rec["panic"] = fmt.Sprint(perr, ierr)
					emit(rec)
					break
				}
				rec["fview"] = fview
			}
			emit(rec)
		}
		r.close()
	}
	return 0
}

// applyNoCheck performs a state-changing operation without comparing against model expectations.
func (r *mkRun) applyNoCheck(op *mkOp) *mkFail {
	switch op.A {
	case "commit":
		_, h, err := r.tree.Commit(r.ctx, mkNs, r.version)
		if err != nil {
			return failf("error", "Commit: %v", err)
		}
		r.root = node.Root{Namespace: mkNs, Version: r.version, Type: r.rootType(), Hash: h}
		r.hasRoot = true
		if r.ndb != nil {
			if err = r.ndb.Finalize([]node.Root{r.root}); err != nil {
				return failf("error", "Finalize: %v", err)
			}
		}
		r.version++
		return nil
	default:
		saved := r.cfg.HashEvery
		r.cfg.HashEvery = false
		defer func() { r.cfg.HashEvery = saved }()
		return r.apply(op, nil)
	}
}
