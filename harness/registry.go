package main

// C17: replay of Registry.tla behaviours on the real registry application (RegisterNode transactions executed by the real
// application against a mock application state; removals through the real state.RemoveNode).

import (
	"context"
	"encoding/json"
	"flag"
	"fmt"
	"math/rand"
	"net"
	"os"
	"runtime"
	"sync"
	"sync/atomic"

	beacon "github.com/oasisprotocol/oasis-core/go/beacon/api"
	"github.com/oasisprotocol/oasis-core/go/common/cbor"
	"github.com/oasisprotocol/oasis-core/go/common/crypto/signature"
	memorySigner "github.com/oasisprotocol/oasis-core/go/common/crypto/signature/signers/memory"
	"github.com/oasisprotocol/oasis-core/go/common/entity"
	"github.com/oasisprotocol/oasis-core/go/common/node"
	"github.com/oasisprotocol/oasis-core/go/common/version"
	cmtapi "github.com/oasisprotocol/oasis-core/go/consensus/cometbft/api"
	beaconState "github.com/oasisprotocol/oasis-core/go/consensus/cometbft/apps/beacon/state"
	consensusState "github.com/oasisprotocol/oasis-core/go/consensus/cometbft/apps/consensus/state"
	registryApp "github.com/oasisprotocol/oasis-core/go/consensus/cometbft/apps/registry"
	registryState "github.com/oasisprotocol/oasis-core/go/consensus/cometbft/apps/registry/state"
	stakingState "github.com/oasisprotocol/oasis-core/go/consensus/cometbft/apps/staking/state"
	consensusGenesis "github.com/oasisprotocol/oasis-core/go/consensus/genesis"
	registry "github.com/oasisprotocol/oasis-core/go/registry/api"
	staking "github.com/oasisprotocol/oasis-core/go/staking/api"
)

func init() {
	register("registry-replay", "replay Registry.tla behaviours on the real registry application; compare key index and lookups", registryReplay)
}

type rgOp struct {
	A   string `json:"a"`
	N   string `json:"n"`
	P2P string `json:"p2p"`
	VRF string `json:"vrf"`
	TLS string `json:"tls"`
}

type rgBehaviour struct {
	Ops    []rgOp `json:"ops"`
	Expect struct {
		Nodes map[string]struct {
			Reg bool   `json:"reg"`
			P2P string `json:"p2p"`
			VRF string `json:"vrf"`
			TLS string `json:"tls"`
		} `json:"nodes"`
		Keymap map[string]string `json:"keymap"`
	} `json:"expect"`
}

var (
	rgKeyMu sync.Mutex
	rgKeys  = map[string]signature.Signer{}
)

func rgSigner(name string) signature.Signer {
	rgKeyMu.Lock()
	defer rgKeyMu.Unlock()
	if s, ok := rgKeys[name]; ok {
		return s
	}
	var seed int64
	for _, c := range name {
		seed = seed*131 + int64(c)
	}
	s, err := memorySigner.NewFactory().Generate(signature.SignerNode, detRand{rand.New(rand.NewSource(seed))})
	if err != nil {
		panic(err)
	}
	rgKeys[name] = s
	return s
}

func rgDescriptor(n string, op *rgOp) (*node.MultiSignedNode, error) {
	var ca, pa node.Address
	_ = ca.FromIP(net.ParseIP("127.0.0.1"), 9000)
	_ = pa.FromIP(net.ParseIP("127.0.0.1"), 9001)
	ns, cs := rgSigner("node-"+n), rgSigner("cons-"+n)
	p2p, vrf, tls := rgSigner(op.P2P), rgSigner(op.VRF), rgSigner(op.TLS)
	nd := &node.Node{
		Versioned:  cbor.NewVersioned(node.LatestNodeDescriptorVersion),
		ID:         ns.Public(),
		EntityID:   rgSigner("ent-" + n).Public(),
		Expiration: 3,
		TLS:        node.TLSInfo{PubKey: tls.Public()},
		P2P:        node.P2PInfo{ID: p2p.Public(), Addresses: []node.Address{pa}},
		Consensus:  node.ConsensusInfo{ID: cs.Public(), Addresses: []node.ConsensusAddress{{ID: cs.Public(), Address: ca}}},
		VRF:        node.VRFInfo{ID: vrf.Public()},
		Roles:      node.RoleValidator,
	}
	return node.MultiSignNode([]signature.Signer{ns, p2p, cs, vrf, tls}, registry.RegisterNodeSignatureContext, nd)
}

func rgRun(b *rgBehaviour, allKeys []string) (int, string) {
	// fresh mock state per behaviour
	appState := cmtapi.NewMockApplicationState(&cmtapi.MockApplicationStateConfig{CurrentEpoch: 1})
	ctx := appState.NewContext(cmtapi.ContextDeliverTx)
	defer ctx.Close()
	var md cmtapi.NoopMessageDispatcher
	app := registryApp.New(appState, &md)
	st := registryState.NewMutableState(ctx.State())
	bg := context.Background()
	_ = bg
	// parameters (written through an EndBlock-mode context as the state API requires)
	ectx := appState.NewContext(cmtapi.ContextEndBlock)
	est := registryState.NewMutableState(ectx.State())
	if err := est.SetConsensusParameters(ectx, &registry.ConsensusParameters{MaxNodeExpiration: 5, DebugAllowUnroutableAddresses: true}); err != nil {
		return 0, "params: " + err.Error()
	}
	if err := stakingState.NewMutableState(ectx.State()).SetConsensusParameters(ectx, &staking.ConsensusParameters{DebugBypassStake: true}); err != nil {
		return 0, "staking params: " + err.Error()
	}
	if err := beaconState.NewMutableState(ectx.State()).SetConsensusParameters(ectx, &beacon.ConsensusParameters{Backend: beacon.BackendInsecure}); err != nil {
		return 0, "beacon params: " + err.Error()
	}
	if err := consensusState.NewMutableState(ectx.State()).SetConsensusParameters(ectx, &consensusGenesis.Parameters{FeatureVersion: &version.Version{Major: 100}}); err != nil {
		return 0, "consensus params: " + err.Error()
	}
	ectx.Close()
	for _, n := range []string{"A", "B"} {
		es := rgSigner("ent-" + n)
		ent := &entity.Entity{Versioned: cbor.NewVersioned(entity.LatestDescriptorVersion), ID: es.Public(), Nodes: []signature.PublicKey{rgSigner("node-" + n).Public()}}
		se, err := entity.SignEntity(es, registry.RegisterEntitySignatureContext, ent)
		if err != nil {
			return 0, err.Error()
		}
		if err = st.SetEntity(ctx, ent, se); err != nil {
			return 0, "SetEntity: " + err.Error()
		}
	}
	for i := range b.Ops {
		op := &b.Ops[i]
		switch op.A {
		case "register":
			sn, err := rgDescriptor(op.N, op)
			if err != nil {
				return i, "sign: " + err.Error()
			}
			tx := registry.NewRegisterNodeTx(0, nil, sn)
			ctx.SetTxSigner(rgSigner("node-" + op.N).Public())
			if err = app.ExecuteTx(ctx, tx); err != nil {
				return i, fmt.Sprintf("RegisterNode rejected where the model admits it: %v", err)
			}
		case "remove":
			nd, err := st.Node(ctx, rgSigner("node-"+op.N).Public())
			if err != nil {
				return i, "remove: node not registered: " + err.Error()
			}
			if err = st.RemoveNode(ctx, nd); err != nil {
				return i, "RemoveNode: " + err.Error()
			}
		}
	}
	// observation: every key of the universe is looked up; every registered node's descriptor is read
	for k, want := range b.Expect.Keymap {
		nd, err := st.NodeBySubKey(ctx, rgSigner(k).Public())
		got := "none"
		if err == nil && nd != nil {
			for _, n := range []string{"A", "B"} {
				if nd.ID.Equal(rgSigner("node-" + n).Public()) {
					got = n
				}
			}
		}
		if got != want {
			cur := ""
			for n, e := range b.Expect.Nodes {
				if e.Reg && (e.P2P == k || e.VRF == k || e.TLS == k || "cons-"+n == k) {
					cur = fmt.Sprintf(" (a current key of registered node %s)", n)
				}
			}
			return len(b.Ops) - 1, fmt.Sprintf("NodeBySubKey(%s) = %s, model %s%s", k, got, want, cur)
		}
	}
	for n, e := range b.Expect.Nodes {
		nd, err := st.Node(ctx, rgSigner("node-"+n).Public())
		if e.Reg != (err == nil && nd != nil) {
			return len(b.Ops) - 1, fmt.Sprintf("node %s registered=%v, model %v", n, err == nil, e.Reg)
		}
		if e.Reg && (!nd.P2P.ID.Equal(rgSigner(e.P2P).Public()) || !nd.VRF.ID.Equal(rgSigner(e.VRF).Public()) || !nd.TLS.PubKey.Equal(rgSigner(e.TLS).Public())) {
			return len(b.Ops) - 1, fmt.Sprintf("node %s descriptor keys differ from the model", n)
		}
	}
	return -1, ""
}

func registryReplay(args []string) int {
	fs := flag.NewFlagSet("registry-replay", flag.ExitOnError)
	in := fs.String("in", "-", "behaviours")
	out := fs.String("out", "-", "summary JSON")
	fs.Parse(args)
	r, err := openIn(*in)
	if err != nil {
		return 2
	}
	defer r.Close()
	var (
		mu      sync.Mutex
		nBeh    int
		nOps    int
		classes = map[string]int{}
		mism    []map[string]any
		bad     atomic.Bool
		sample  json.RawMessage
		exch    int
	)
	lines := make(chan []byte, 256)
	var wg sync.WaitGroup
	for wk := 0; wk < runtime.NumCPU(); wk++ {
		wg.Add(1)
		go func() {
			defer wg.Done()
			for line := range lines {
				var b rgBehaviour
				if err := json.Unmarshal(line, &b); err != nil {
					fmt.Fprintln(os.Stderr, "bad behaviour:", err)
					bad.Store(true)
					continue
				}
				var step int
				var msg string
				if perr := guard(func() { step, msg = rgRun(&b, nil) }); perr != nil {
					step, msg = len(b.Ops)-1, perr.Error()
				}
				// does the last operation re-use one of the node's own previous keys in another role (an "exchange")?
				ex := false
				if l := len(b.Ops); l >= 2 && b.Ops[l-1].A == "register" {
					last := b.Ops[l-1]
					for j := l - 2; j >= 0; j-- {
						if p := b.Ops[j]; p.N == last.N {
							if p.A == "register" {
								old := map[string]string{p.P2P: "p2p", p.VRF: "vrf", p.TLS: "tls"}
								if r, ok := old[last.P2P]; ok && r != "p2p" {
									ex = true
								}
								if r, ok := old[last.VRF]; ok && r != "vrf" {
									ex = true
								}
								if r, ok := old[last.TLS]; ok && r != "tls" {
									ex = true
								}
							}
							break
						}
					}
				}
				mu.Lock()
				nBeh++
				nOps += len(b.Ops)
				if ex {
					exch++
				}
				if sample == nil && len(b.Ops) >= 3 {
					sample = mustJSON(b.Ops)
				}
				if step >= 0 {
					cl := "lookup"
					if len(msg) > 12 && msg[:12] == "RegisterNode" {
						cl = "rejected"
					}
					cl = fmt.Sprintf("%s:own_key_exchange=%v", cl, ex)
					classes[cl]++
					if classes[cl] <= 3 {
						mism = append(mism, map[string]any{"step": step, "msg": msg, "ops": b.Ops, "own_key_exchange": ex, "class": cl})
					}
				}
				mu.Unlock()
			}
		}()
	}
	sc := lineReader(r)
	for sc.Scan() {
		line := sc.Bytes()
		if len(line) == 0 || line[0] != '{' {
			continue
		}
		lines <- append([]byte{}, line...)
	}
	close(lines)
	wg.Wait()
	if bad.Load() {
		return 2
	}
	w, err := openOut(*out)
	if err != nil {
		return 2
	}
	defer w.Close()
	nm := 0
	for _, c := range classes {
		nm += c
	}
	w.Write(mustJSON(map[string]any{"behaviours": nBeh, "ops": nOps, "mismatch_count": nm, "classes": classes, "mismatches": mism,
		"sample": sample, "last_op_exchanges_own_keys": exch}))
	return 0
}
