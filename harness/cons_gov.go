package main

// Governance projection for TraceGovernance.tla: proposals with their state, closing epoch, deposit and tally results, the
// recorded votes, the voting parameters and the entities of the current validator set, read through the exported
// immutable-state readers after the block's EndBlock.

import (
	"context"
	"sort"
	"strconv"

	governanceState "github.com/oasisprotocol/oasis-core/go/consensus/cometbft/apps/governance/state"
	registryState "github.com/oasisprotocol/oasis-core/go/consensus/cometbft/apps/registry/state"
	schedulerState "github.com/oasisprotocol/oasis-core/go/consensus/cometbft/apps/scheduler/state"
	governance "github.com/oasisprotocol/oasis-core/go/governance/api"
	staking "github.com/oasisprotocol/oasis-core/go/staking/api"
	"github.com/oasisprotocol/oasis-core/go/storage/mkvs"
)

func (n *cnNet) governanceProjection(t mkvs.ImmutableKeyValueTree) (map[string]any, error) {
	ctx := context.Background()
	gs := governanceState.NewImmutableState(t)
	params, err := gs.ConsensusParameters(ctx)
	if err != nil {
		return nil, err
	}
	props, err := gs.Proposals(ctx)
	if err != nil {
		return nil, err
	}
	sort.Slice(props, func(i, j int) bool { return props[i].ID < props[j].ID })
	var pl []map[string]any
	for _, p := range props {
		kind := "other"
		switch {
		case p.Content.ChangeParameters != nil:
			kind = "params:" + p.Content.ChangeParameters.Module
		case p.Content.Upgrade != nil:
			kind = "upgrade"
		case p.Content.CancelUpgrade != nil:
			kind = "cancel"
		}
		upEpoch, cancels := int64(-1), int64(0)
		if p.Content.Upgrade != nil {
			upEpoch = int64(p.Content.Upgrade.Descriptor.Epoch)
		}
		if p.Content.CancelUpgrade != nil {
			cancels = int64(min(p.Content.CancelUpgrade.ProposalID, 1<<30))
		}
		res := map[string]int64{"yes": 0, "no": 0, "abstain": 0}
		for v, q := range p.Results {
			q := q
			res[v.String()] = qi(&q)
		}
		vs, err := gs.Votes(ctx, p.ID)
		if err != nil {
			return nil, err
		}
		vl := [][]string{}
		for _, v := range vs {
			vl = append(vl, []string{n.nameOf(v.Voter), v.Vote.String()})
		}
		sort.Slice(vl, func(i, j int) bool { return vl[i][0] < vl[j][0] })
		pl = append(pl, map[string]any{
			"votes": vl,
			"id":    int64(p.ID), "submitter": n.nameOf(p.Submitter), "state": p.State.String(), "closes_at": int64(p.ClosesAt),
			"deposit": qi(&p.Deposit), "kind": kind, "results": res, "has_results": p.Results != nil, "invalid": int64(p.InvalidVotes),
			"created_at": int64(p.CreatedAt), "up_epoch": upEpoch, "cancels": cancels,
		})
	}
	if pl == nil {
		pl = []map[string]any{}
	}
	// entities of the current validator set (what the tally and the eligibility check use)
	ss := schedulerState.NewImmutableState(t)
	rs := registryState.NewImmutableState(t)
	cur, err := ss.CurrentValidators(ctx)
	if err != nil {
		return nil, err
	}
	seen := map[string]bool{}
	vals := []string{}
	valNodes := []string{}
	for _, v := range cur {
		valNodes = append(valNodes, n.nameOf(staking.NewAddress(v.ID)))
		name := n.nameOf(staking.NewAddress(v.EntityID))
		if !seen[name] {
			seen[name] = true
			vals = append(vals, name)
		}
	}
	sort.Strings(vals)
	// entities with a registered descriptor (a transaction signer without one may vote only if the parameters allow it)
	ents, err := rs.Entities(ctx)
	if err != nil {
		return nil, err
	}
	entNames := []string{}
	entNodes := map[string]any{} // the node identifiers an entity's descriptor lists (a whitelist: the nodes need not be its own)
	for _, e := range ents {
		en := n.nameOf(staking.NewAddress(e.ID))
		entNames = append(entNames, en)
		nl := []string{}
		for _, id := range e.Nodes {
			nl = append(nl, n.nameOf(staking.NewAddress(id)))
		}
		sort.Strings(nl)
		entNodes[en] = nl
	}
	sort.Strings(entNames)
	sort.Strings(valNodes)
	// pending upgrades, read in the two ways the state offers: by proposal (is this upgrade proposal pending?) and by scanning the
	// pending-upgrade index (epochs of the descriptors it yields)
	pend := []map[string]any{}
	for _, p := range props {
		if p.Content.Upgrade == nil {
			continue
		}
		if up, uerr := gs.PendingUpgradeProposal(ctx, p.ID); uerr == nil {
			pend = append(pend, map[string]any{"id": int64(p.ID), "epoch": int64(up.Descriptor.Epoch)})
		}
	}
	pendEpochs := []int64{}
	pds, err := gs.PendingUpgrades(ctx)
	if err != nil {
		return nil, err
	}
	for _, d := range pds {
		pendEpochs = append(pendEpochs, int64(d.Epoch))
	}
	sort.Slice(pendEpochs, func(i, j int) bool { return pendEpochs[i] < pendEpochs[j] })
	return map[string]any{
		"pending_upgrades": pend, "pending_epochs": pendEpochs,
		"proposals": pl, "vals": vals, "valnodes": valNodes, "entities": entNames, "entnodes": entNodes,
		"params": map[string]any{
			"threshold": int64(params.StakeThreshold), "period": int64(params.VotingPeriod), "min_deposit": qi(&params.MinProposalDeposit),
			"allow_without_entity": params.AllowVoteWithoutEntity, "upgrade_min_diff": int64(params.UpgradeMinEpochDiff),
		},
	}, nil
}

var _ = governance.ModuleName

func fmtInt(x int64) string {
	return strconv.FormatInt(x, 10)
}
