#!/bin/sh
# Rebuild the Go conformance harness (vh) from /repo's current working tree with hooks enabled.
# Everything is generated from files on disk; nothing is fetched.
set -e
VERIF=${VERIF:-$(cd "$(dirname "$0")/.." && pwd)}
REPO=${REPO:-/repo}
export GOFLAGS=-mod=mod GOPROXY=off GOSUMDB=off GOTOOLCHAIN=local CGO_ENABLED=${CGO_ENABLED:-1}
mkdir -p "$VERIF/.build"
# bin/seedtest holds this lock exclusively while /repo carries a seeded defect; every other build waits (shared) so that a check
# started meanwhile from another copy of /verif never compiles the mutated tree.  The lock file is created on demand.
# (Taken before the build lock: seedtest's own builds skip it and must be able to get the build lock.)
if [ -z "$VERIF_SEEDTEST" ]; then
  exec 8>/tmp/.verif-repo.lock
  flock -s 8
fi
exec 9>"$VERIF/.build/.lock"
flock 9
cd "$VERIF/harness"
# go.mod = the repository's own go.mod (so the unpruned module graph resolves offline) + replace.
{
  sed -e 's#^module .*#module verifharness#' "$REPO/go/go.mod"
  echo
  echo 'require github.com/oasisprotocol/oasis-core/go v0.0.0'
  echo "replace github.com/oasisprotocol/oasis-core/go => $REPO/go"
} > go.mod.new
if ! cmp -s go.mod.new go.mod 2>/dev/null; then mv go.mod.new go.mod; else rm go.mod.new; fi
cp "$REPO/go/go.sum" go.sum
GO=go1.26.8
command -v $GO >/dev/null 2>&1 || GO=go
$GO build -tags verif -o "$VERIF/.build/vh" .
# RACE=1: additionally a race-detector build (used by the thorough tier of C01)
if [ -n "$RACE" ]; then
  $GO build -race -tags verif -o "$VERIF/.build/vh-race" .
fi

