"""Shared machinery of the /verif checks: harness build, TLC runner, evidence writer, verdict lines.

Verdict policy (DESIGN.md 1.3):
  exit 0  property held on everything explored (KNOWN-FINDING lines allowed)
  exit 1  + "VIOLATION property=<id> replay=<path>" : the real code's recorded behaviour falsifies the Rule
  exit 2  infrastructure failure (build, TLC crash/timeout, dead driver) - never a verdict
"""
import json
import os
import re
import shutil
import subprocess
import sys
import tempfile
import time

VERIF = os.environ.get("VERIF", os.path.dirname(os.path.dirname(os.path.abspath(__file__))))
REPO = os.environ.get("REPO", "/repo")
SPECS = os.path.join(VERIF, "specs")
VH = os.path.join(VERIF, ".build", "vh")
TLA_CP = "/opt/veriftools/tla/tla2tools.jar:/opt/veriftools/tla/CommunityModules-deps.jar"
NCPU = os.cpu_count() or 8


class Infra(Exception):
    """Infrastructure failure: exit 2, never a violation."""


class Ctx:
    def __init__(self, pid, tier, seed):
        self.pid = pid
        self.tier = tier
        self.seed = seed
        self.t0 = time.time()
        self.scratch = tempfile.mkdtemp(prefix="verif-%s-" % pid)
        self.violations = []       # list of (what, replay_path)
        self.known = []            # KNOWN-FINDING lines printed
        self.drift = []            # MODEL-DRIFT lines
        self.coverage = {}
        self.assumptions = []
        self.notes = []

    def quick(self):
        return self.tier == "quick"

    def path(self, *p):
        return os.path.join(self.scratch, *p)

    def cleanup(self):
        if os.environ.get("VERIF_KEEP"):        # debugging aid: keep the scratch directory (traces, summaries)
            print("scratch kept: %s" % self.scratch, flush=True)
            return
        shutil.rmtree(self.scratch, ignore_errors=True)

    def log(self, *a):
        print("[%s %6.1fs]" % (self.pid, time.time() - self.t0), *a, flush=True)


def build_harness(ctx=None):
    """Rebuild vh from /repo's current working tree with -tags verif."""
    t = time.time()
    p = subprocess.run([os.path.join(VERIF, "lib", "build.sh")], stdout=subprocess.PIPE, stderr=subprocess.STDOUT, text=True)
    if p.returncode != 0:
        raise Infra("harness build failed:\n" + p.stdout[-4000:])
    if ctx:
        ctx.log("harness built in %.1fs" % (time.time() - t))
    return VH


def copy_specs(ctx, *subdirs):
    """Copy spec directories (flattened) into a fresh scratch dir where TLC may litter."""
    d = tempfile.mkdtemp(prefix="tlc-", dir=ctx.scratch)
    for sd in ("common",) + subdirs:
        src = os.path.join(SPECS, sd)
        if not os.path.isdir(src):
            continue
        for f in os.listdir(src):
            if f.endswith((".tla", ".cfg")):
                shutil.copy(os.path.join(src, f), os.path.join(d, f))
    return d


class TlcResult:
    def __init__(self):
        self.rc = None
        self.generated = 0
        self.distinct = 0
        self.depth = 0
        self.tail = []
        self.violated = None      # name of violated invariant/property, or "postcondition", "deadlock"
        self.error = None
        self.emitted = 0
        self.coverage_zero = []
        self.last_state = 0
        self.bad = None
        self.wall = 0.0

    def ok(self):
        return self.rc == 0 and self.violated is None and self.error is None


_re_states = re.compile(r"(\d[\d,]*) states generated, (\d[\d,]*) distinct states found")
_re_depth = re.compile(r"The depth of the complete state graph search is (\d+)")
_re_stateno = re.compile(r"State (\d+):")
_re_inv = re.compile(r"Invariant (\S+) is violated")
_re_prop = re.compile(r"(Temporal properties were violated|Action property (\S+) is violated)")


def run_tlc(ctx, workdir, module, cfg, workers=None, timeout=900, extra=(), sink=None, heap=None,
            jvm=(), keep_lines=400):
    """Run TLC.  Lines that are printed JSON strings (PrintT(ToJson(..))) are decoded and written to
    `sink` (a file object or a callable) one JSON document per line; everything else is scanned for statistics."""
    workers = workers or min(NCPU, 16)
    meta = tempfile.mkdtemp(prefix="meta-", dir=workdir)
    cmd = ["timeout", "-k", "10", str(timeout), "java", "-XX:+UseParallelGC", "-Xss512m"]
    if heap:
        cmd.append("-Xmx" + heap)
    cmd += list(jvm)
    cmd += ["-cp", TLA_CP, "tlc2.TLC", "-workers", str(workers), "-metadir", meta, "-config", cfg]
    cmd += list(extra) + [module]
    res = TlcResult()
    t = time.time()
    p = subprocess.Popen(cmd, cwd=workdir, stdout=subprocess.PIPE, stderr=subprocess.STDOUT, text=True, bufsize=1 << 20)
    write = None
    if sink is not None:
        write = sink if callable(sink) else sink.write
    tail = []
    for line in p.stdout:
        if line.startswith('"{') or line.startswith('"['):
            res.emitted += 1
            if write:
                try:
                    write(json.loads(line) + "\n")
                except BrokenPipeError:
                    pass
                except json.JSONDecodeError:
                    tail.append("UNDECODABLE: " + line[:200])
            continue
        tail.append(line.rstrip("\n"))
        if len(tail) > keep_lines:
            del tail[: len(tail) - keep_lines]
        m = _re_states.search(line)
        if m:
            res.generated = int(m.group(1).replace(",", ""))
            res.distinct = int(m.group(2).replace(",", ""))
        m = _re_depth.search(line)
        if m:
            res.depth = int(m.group(1))
        if line.startswith("/\\ bad = ") and '"none"' not in line:
            res.bad = line[len("/\\ bad = "):].strip().strip('"')
        if line.startswith("State "):
            m = _re_stateno.match(line)
            if m:
                res.last_state = max(res.last_state, int(m.group(1)))
        m = _re_inv.search(line)
        if m:
            res.violated = m.group(1)
        m = _re_prop.search(line)
        if m:
            res.violated = m.group(2) or "temporal"
        if "Deadlock reached" in line:
            res.violated = "deadlock"
        if "Postcondition" in line and ("violated" in line or "is false" in line) and res.violated is None:
            res.violated = "postcondition"   # (an invariant violation reported earlier is the more specific verdict)
        if line.startswith("Error:") and res.violated is None and "violated" not in line and "Postcondition" not in line:
            if res.error is None:
                res.error = line.strip()
    p.wait()
    res.rc = p.returncode
    res.tail = tail
    res.wall = time.time() - t
    shutil.rmtree(meta, ignore_errors=True)
    if res.rc in (124, 137):
        res.error = "timeout after %ss" % timeout
    return res


def tlc_must_pass(ctx, res, what):
    """A design-level TLC run that fails is an infrastructure/model problem, not a verdict on the code."""
    if not res.ok():
        raise Infra("%s: TLC rc=%s violated=%s error=%s\n%s" % (what, res.rc, res.violated, res.error, "\n".join(res.tail[-40:])))


def run_vh(ctx, args, stdin=None, timeout=3600, env=None):
    e = dict(os.environ)
    if env:
        e.update(env)
    p = subprocess.run([VH] + args, input=stdin, stdout=subprocess.PIPE, stderr=subprocess.PIPE, text=True, timeout=timeout, env=e)
    if p.returncode != 0:
        raise Infra("vh %s failed rc=%s\n%s" % (" ".join(args[:3]), p.returncode, p.stderr[-4000:]))
    return p.stdout


def popen_vh(args, **kw):
    return subprocess.Popen([VH] + args, stdin=subprocess.PIPE, text=True, bufsize=1 << 20, **kw)


def validate_traces(ctx, specsubdirs, module, cfg, lines, begin_marker='"ev":"begin"', max_rounds=6,
                    timeout=1800, fname="trace.ndjson", jvm=(), chunk_bytes=150 << 20):
    """Validate concatenated ndjson traces (segments start with a begin event) against a Trace*.tla spec.
    Returns (rejected_segments, n_valid_segments, n_events).  On a rejection the offending segment is cut out and
    the rest is validated again, so one rejection does not leave the remainder unexamined.
    Very long inputs are validated in chunks of whole segments (TLC's JSON module reads a trace file into memory)."""
    lines = [ln if ln.endswith("\n") else ln + "\n" for ln in lines if ln.strip()]
    if sum(len(x) for x in lines) > chunk_bytes:
        chunks, cur, size = [], [], 0
        for ln in lines:
            if begin_marker in ln and size > chunk_bytes and cur:
                chunks.append(cur)
                cur, size = [], 0
            cur.append(ln)
            size += len(ln)
        if cur:
            chunks.append(cur)
        if len(chunks) > 1:
            rej, nv, nev = [], 0, 0
            for ch in chunks:
                r, v, e = validate_traces(ctx, specsubdirs, module, cfg, ch, begin_marker, max_rounds, timeout, fname, jvm, chunk_bytes=1 << 62)
                rej += r
                nv += v
                nev += e
            return rej, nv, nev
    nseg = sum(1 for ln in lines if begin_marker in ln)
    nev = len(lines)
    rejected = []
    for _ in range(max_rounds):
        if not lines:
            break
        d = copy_specs(ctx, *specsubdirs)
        with open(os.path.join(d, fname), "w") as f:
            f.writelines(lines)
        res = run_tlc(ctx, d, module, cfg, workers=1, timeout=timeout, jvm=jvm)
        shutil.rmtree(d, ignore_errors=True)
        if res.ok():
            break
        if res.error or res.violated is None:
            raise Infra("trace validation: TLC rc=%s error=%s\n%s" % (res.rc, res.error, "\n".join(res.tail[-30:])))
        if res.violated == "postcondition":
            idx = res.depth - 1          # depth-1 events were consumed; the next one is unexplained
            why = "no model step explains the event"
        else:
            idx = res.last_state - 2     # the step into the violating state
            why = "rule %s violated%s" % (res.violated, (": " + res.bad) if res.bad else "")
        if idx < 0 or idx >= len(lines):
            raise Infra("trace validation: cannot locate failing event (depth %d, state %d, %d lines)" % (res.depth, res.last_state, len(lines)))
        a = idx
        while a > 0 and begin_marker not in lines[a]:
            a -= 1
        b = idx + 1
        while b < len(lines) and begin_marker not in lines[b]:
            b += 1
        rejected.append({"why": why, "failing_event": lines[idx].strip(), "failing_index_in_segment": idx - a,
                         "events": [json.loads(x) for x in lines[a:idx + 1]]})
        lines = lines[:a] + lines[b:]
    else:
        if rejected and len(rejected) >= max_rounds:
            ctx.notes.append("trace validation stopped after %d rejected segments" % len(rejected))
    return rejected, nseg - len(rejected), nev


# ---------------------------------------------------------------------------------------------
# known findings

def load_known(pid):
    path = os.path.join(VERIF, "known_findings.json")
    if not os.path.exists(path):
        return []
    with open(path) as f:
        data = json.load(f)
    return [k for k in data.get("findings", []) if k.get("property") == pid and k.get("status") == "open"]


def report(ctx, what, replay_obj, match_keys=None):
    """Report a falsified Rule.  If it matches an open known finding (all keys of the finding's `match` equal the
    given match_keys) print KNOWN-FINDING, else record a VIOLATION with a replay file."""
    match_keys = match_keys or {}
    for k in load_known(ctx.pid):
        m = k.get("match", {})
        if m and all(match_keys.get(a) == b for a, b in m.items()):
            line = "KNOWN-FINDING: property=%s %s" % (ctx.pid, k.get("what", ""))
            if line not in ctx.known:
                ctx.known.append(line)
                print(line, flush=True)
            return False
    rdir = os.path.join(VERIF, "evidence", "replays")
    os.makedirs(rdir, exist_ok=True)
    path = os.path.join(rdir, "%s-%s-%d.json" % (ctx.pid, ctx.tier, len(ctx.violations)))
    with open(path, "w") as f:
        json.dump({"property": ctx.pid, "what": what, "match_keys": match_keys, "replay": replay_obj}, f, indent=1, default=str)
    ctx.violations.append((what, path))
    print("VIOLATION property=%s replay=%s" % (ctx.pid, path), flush=True)
    print("  " + what[:2000], flush=True)
    return True


def write_evidence(ctx, level="model_checking"):
    os.makedirs(os.path.join(VERIF, "evidence"), exist_ok=True)
    cov = dict(ctx.coverage)
    cov.setdefault("samples", ["(no sample recorded)"])
    ev = {
        "property_id": ctx.pid,
        "tier": ctx.tier,
        "seed": ctx.seed,
        "level": level,
        "coverage": cov,
        "assumptions": ctx.assumptions,
        "wall_s": round(time.time() - ctx.t0, 1),
        "violations": len(ctx.violations),
        "known_findings_hit": ctx.known,
        "model_drift": ctx.drift[:20],
        "notes": ctx.notes,
    }
    with open(os.path.join(VERIF, "evidence", ctx.pid + ".json"), "w") as f:
        json.dump(ev, f, indent=1, default=str)


def main(pid, run):
    import argparse
    ap = argparse.ArgumentParser()
    ap.add_argument("--tier", default=os.environ.get("VERIF_TIER", "quick"), choices=["quick", "thorough"])
    ap.add_argument("--replay", default=None)
    ap.add_argument("--seed", type=int, default=int(os.environ.get("VERIF_SEED", "1") or 1))
    a = ap.parse_args(sys.argv[2:])
    ctx = Ctx(pid, a.tier, a.seed)
    ctx.replay = a.replay
    try:
        build_harness(ctx)
        run(ctx)
        if getattr(ctx, "deferred_infra", None) and not ctx.violations:
            # part of the exploration did not run (e.g. a scenario chain halted); what did run was judged first - with no
            # violation found there, the unexplored rest makes this run inconclusive rather than a pass
            raise Infra("; ".join(ctx.deferred_infra[:3]))
        write_evidence(ctx)
        rc = 1 if ctx.violations else 0
    except Infra as e:
        print("INFRA-FAILURE property=%s: %s" % (pid, e), flush=True)
        rc = 2
        if ctx.violations:
            # violations already established on the real code stand; a later phase failing does not erase them
            try:
                ctx.coverage.setdefault("evaluations", 1)
                ctx.coverage.setdefault("distinct_nontrivial", 2)
                ctx.notes.append("a later phase failed: %s" % str(e)[:300])
                write_evidence(ctx)
            except Exception:
                pass
            rc = 1
    except subprocess.TimeoutExpired as e:
        print("INFRA-FAILURE property=%s: timeout %s" % (pid, e), flush=True)
        rc = 2
    except Exception as e:  # a dead harness process (killed, out of memory), a broken pipe, a bug of the check itself: never a verdict
        import traceback
        traceback.print_exc()
        print("INFRA-FAILURE property=%s: %s: %s" % (pid, type(e).__name__, str(e)[:300]), flush=True)
        rc = 1 if ctx.violations else 2
    finally:
        ctx.cleanup()
    ctx.log("done rc=%d violations=%d known=%d" % (rc, len(ctx.violations), len(ctx.known)))
    sys.exit(rc)
