"""C07 - node database survives a crash at any point of a write operation.

NodeDBCrash.tla extends the NodeDB contract model: the last operation of a history is interrupted at one of its named durable
steps (the H1 hook points, listed per backend and operation in the MC module).  For every emitted (history, crash point) the
harness runs the history in a CHILD PROCESS on an on-disk database and lets the hook terminate the process abruptly at that
point; the parent reopens the database and checks (1) the finalized state equals the model's state before or after the
interrupted operation - with a full read-back of every finalized root, (2) repeating the operation succeeds (or is declined
because it had already taken full effect) and yields the post-state, (3) the rest of the history continues correctly.
"""
import json
import os

import vlib


def run(ctx):
    q = ctx.quick()
    ctx.assumptions += [
        "process death, not power loss: writes already handed to Badger survive in issue order; a crash inside one Badger batch "
        "flush is not injected",
        "crash points are the H1 hook points (one after every durable write but the last of Commit / Finalize / Prune)",
        "multipart (checkpoint restore) crash points are exercised by C12's restore scenarios, not here",
        "histories on which the uninterrupted run already deviates (C06 known findings on the legacy backend) are skipped",
    ]
    if ctx.replay:
        rp = json.load(open(ctx.replay))["replay"]
        print(json.dumps(rp, indent=1)[:6000])
        raise vlib.Infra("C07 replay files are self-describing (steps + crash spec); re-run the tier to reproduce")
    d = vlib.copy_specs(ctx, "mkvs")
    out = ctx.path("crash.json")
    scratch = ctx.path("crashdbs")
    os.makedirs(scratch)
    every = 750 if q else 36      # lineage-aware generation (TrackLineage) emits about three times as many histories
    vh = vlib.popen_vh(["nodedb-crash", "-in", "-", "-out", out, "-every", str(every), "-scratch", scratch])
    g = vlib.run_tlc(ctx, d, "MCNodeDBCrash", "gen_crash.cfg", timeout=3000, sink=vh.stdin)
    vh.stdin.close()
    if vh.wait() != 0:
        raise vlib.Infra("nodedb-crash failed")
    vlib.tlc_must_pass(ctx, g, "crash scenario generation")
    s = json.load(open(out))
    ctx.log("crash: %d scenarios from %d/%d histories; outcomes %s" % (
        s["scenarios"], s["behaviours"], g.emitted, {k: sum(v for kk, v in s["outcomes"].items() if kk.startswith(k)) for k in ("pre", "post")}))
    if s["infra"]:
        if len(s["infra"]) > max(3, s["scenarios"] // 50):
            raise vlib.Infra("crash children failed: %s" % s["infra"][:3])
        ctx.notes.append("child problems: %s" % s["infra"][:3])
    if s["scenarios"] < 50:
        raise vlib.Infra("too few crash scenarios executed (%d)" % s["scenarios"])
    # binding self-test: every point the spec names must have been reached, and every hook reached must be named by the spec
    spec_points = {"commit@badger.commit.nodes_flushed", "finalize@badger.finalize.batch_flushed", "finalize@badger.finalize.meta_committed",
                   "prune@badger.prune.batch_flushed", "commit@path.newbatch.seq_reserved", "commit@path.commit.seqno_committed",
                   "commit@path.commit.meta_flushed", "finalize@path.finalize.copy_flushed", "finalize@path.finalize.copymeta_flushed",
                   "finalize@path.finalize.delete_flushed", "finalize@path.finalize.deletemeta_flushed", "finalize@path.finalize.meta_committed",
                   "prune@path.prune.batch_flushed", "prune@path.prune.batchmeta_flushed"}
    seen = set(s["hooks_seen_in_dry_runs"])
    if seen - spec_points:
        raise vlib.Infra("hook/spec step mismatch: hooks hit that the spec does not name: %s" % sorted(seen - spec_points))
    never = spec_points - set(s["points"])
    if never and not q:
        raise vlib.Infra("hook/spec step mismatch: spec steps never crashed at: %s" % sorted(never))
    # several competing candidates per version (pending-root sequence numbers above 0 on pathbadger), crash in the last three steps
    out2 = ctx.path("crash2.json")
    scratch2 = ctx.path("crashdbs2")
    os.makedirs(scratch2)
    vh2 = vlib.popen_vh(["nodedb-crash", "-in", "-", "-out", out2, "-every", "10" if q else "1", "-last", "3", "-scratch", scratch2])
    g2 = vlib.run_tlc(ctx, d, "MCNodeDBCrash", "gen_crash2.cfg", timeout=3000, sink=vh2.stdin)
    vh2.stdin.close()
    if vh2.wait() != 0:
        raise vlib.Infra("nodedb-crash failed (candidates)")
    vlib.tlc_must_pass(ctx, g2, "crash scenario generation (candidates)")
    s2 = json.load(open(out2))
    ctx.log("crash (competing candidates): %d scenarios from %d/%d histories; outcomes %s" % (
        s2["scenarios"], s2["behaviours"], g2.emitted, {k: sum(v for kk, v in s2["outcomes"].items() if kk.startswith(k)) for k in ("pre", "post")}))
    if s2["infra"] and len(s2["infra"]) > max(3, s2["scenarios"] // 50):
        raise vlib.Infra("crash children failed: %s" % s2["infra"][:3])
    if s2["scenarios"] < 50:
        raise vlib.Infra("too few crash scenarios executed (%d, competing candidates)" % s2["scenarios"])
    s["fails"] = (s["fails"] or []) + (s2["fails"] or [])
    s["scenarios"] += s2["scenarios"]
    # competing candidates with the SAME shape and other values (two values per key), and up to two operations after the crash and
    # the retry: a competing candidate committed after the reopen, the earlier candidate finalized - whatever the database kept in
    # memory only (sequence numbers handed out, batch indices) is gone by then
    out3 = ctx.path("crash3.json")
    scratch3 = ctx.path("crashdbs3")
    os.makedirs(scratch3)
    vh3 = vlib.popen_vh(["nodedb-crash", "-in", "-", "-out", out3, "-every", "40" if q else "2", "-scratch", scratch3])
    g3 = vlib.run_tlc(ctx, d, "MCNodeDBCrash", "gen_crash3.cfg", timeout=3000, sink=vh3.stdin)
    vh3.stdin.close()
    if vh3.wait() != 0:
        raise vlib.Infra("nodedb-crash failed (continued operation)")
    vlib.tlc_must_pass(ctx, g3, "crash scenario generation (continued operation)")
    s3 = json.load(open(out3))
    ctx.log("crash (same-shape candidates, operations after the crash): %d scenarios from %d/%d histories" % (s3["scenarios"], s3["behaviours"], g3.emitted))
    if s3["infra"] and len(s3["infra"]) > max(3, s3["scenarios"] // 50):
        raise vlib.Infra("crash children failed: %s" % s3["infra"][:3])
    if s3["scenarios"] < 50:
        raise vlib.Infra("too few crash scenarios executed (%d, continued operation)" % s3["scenarios"])
    s["fails"] = (s["fails"] or []) + (s3["fails"] or [])
    s["scenarios"] += s3["scenarios"]
    # fixed corpus (specs/mkvs/corpus): histories whose crash scenarios must run in every tier and with every seed, whatever
    # representative histories TLC happened to pick (its choice among equivalent predecessors varies from run to run).
    # crash_prune_lone: Prune of a version whose roots have no derived roots (IO roots of every runtime round are such roots).
    cout = ctx.path("crash-corpus.json")
    cscratch = ctx.path("crashdbs-corpus")
    os.makedirs(cscratch)
    vlib.run_vh(ctx, ["nodedb-crash", "-in", os.path.join(vlib.VERIF, "specs", "mkvs", "corpus", "crash_prune_lone.ndjson"), "-out", cout,
                      "-every", "1", "-last", "3", "-scratch", cscratch])
    cs = json.load(open(cout))
    if cs["infra"] or cs["scenarios"] < 40 or any(k.startswith("skipped") for k in cs["classes"]):
        raise vlib.Infra("corpus crash scenarios did not all run: %s %s" % (cs["infra"], cs["classes"]))
    ctx.log("corpus: %d scenarios, outcomes %s" % (cs["scenarios"], {k: sum(v for kk, v in cs["outcomes"].items() if kk.startswith(k)) for k in ("pre", "post")}))
    s["fails"] = (s["fails"] or []) + (cs["fails"] or [])
    s["scenarios"] += cs["scenarios"]
    for f in s["fails"] or []:
        keys = {"backend": f["spec"]["backend"], "kind": f["fail"]["kind"], "phase": f["phase"]}
        vlib.report(ctx, "crash at %s (step %d, %s): %s: %s" % (f["spec"]["point"], f["spec"]["step"], f["spec"]["backend"], f["phase"], f["fail"]["msg"][:500]),
                    {"crash": f["spec"], "steps": [st["op"] for st in f["steps"]], "fail": f["fail"]}, keys)
    ctx.coverage.update(
        states=g.distinct, transitions=g.generated, crash_scenarios=s["scenarios"], outcomes=s["outcomes"], points=s["points"],
        skipped={k: v for k, v in s["classes"].items() if k.startswith("skipped")},
        traces_validated_against_impl=s["scenarios"], samples=s["samples"])
