"""C10 - no block content can halt block execution.

The scenario driver pushes real multiplexers through block histories with failing and malformed transactions, junk bytes,
replays, all validators absent, evidence against known and unknown validators, nodes lapsing, slashing/freezing and epoch
transitions where rewards, fee disbursement and debonding coincide; every ABCI call runs under recover().  TLC validates the
recorded life cycle (TraceReplica.tla, clauses C10): no panic / fatal error in any replica, PrepareProposal always builds a
block from non-system transactions, and every honestly built proposal is accepted by every replica.
Documented precondition kept by the driver: at least one stake-eligible, unfrozen validator remains.
"""
import json

import vlib
from props import cons_common as cc


def run(ctx):
    q = ctx.quick()
    ctx.assumptions += [
        "precondition: one validator is never slashed/frozen and nodes re-register before expiry (one node may lapse per epoch)",
        "empty commit info only at the initial height (CometBFT never passes it later)",
        "amounts stay below 2^31; extreme magnitudes (2^64-1, 2^255) and governance/roothash messages are not driven yet",
    ]
    if ctx.replay:
        raise vlib.Infra("re-run the tier with the same VERIF_SEED to reproduce")
    d = vlib.copy_specs(ctx, "consensus")
    res = vlib.run_tlc(ctx, d, "MCReplica", "design_replica.cfg", timeout=1200)
    vlib.tlc_must_pass(ctx, res, "design run Replica")
    ctx.coverage.update(states=res.distinct, transitions=res.generated)
    seeds = [ctx.seed * 1000 + 500 + i for i in range(8 if q else 160)]
    lines, sums = cc.run_scenarios(ctx, seeds, 150 if q else 400, halt_ok=True)
    l2, s2 = cc.run_scenarios(ctx, [x + 300 for x in seeds] + [x + 350 for x in seeds], 150 if q else 400, extra=cc.VRF, halt_ok=True)
    l3, s3 = cc.run_scenarios(ctx, [x + 600 for x in seeds[:max(2, len(seeds) // 3)]], 150 if q else 400, extra=["-mintransact", "3"], halt_ok=True)
    l4, s4 = cc.run_scenarios(ctx, [x + 700 for x in seeds], 150 if q else 400, extra=["-tinystake", "-validators", "5", "-debond", "0"], halt_ok=True)
    # long epochs, five validators, committees of up to three workers: room for runtime descriptor updates, mid-epoch re-elections
    # (evidence in the block after a committee was enlarged) and rounds finalized by the re-elected committee within one epoch; vaults
    l5, s5 = cc.run_scenarios(ctx, [x + 800 for x in seeds] + [x + 850 for x in seeds[:2]], 240 if q else 480,
                              extra=["-validators", "5", "-maxgroup", "3", "-epoch", "12"], halt_ok=True)
    l6, s6 = cc.run_scenarios(ctx, [x + 900 for x in seeds[:max(2, len(seeds) // 3)]], 150 if q else 400, extra=["-vault"], halt_ok=True)
    lines += l2 + l3 + l4 + l5 + l6
    sums += s2 + s3 + s4 + s5 + s6
    t = cc.totals(sums)
    for s in sums:
        for p in (s.get("panics") or [])[:2]:
            ctx.notes.append("seed %d: %s" % (s["seed"], p[:300]))
    rej, nv, nev = cc.validate(ctx, lines, "TraceReplica", "tracereplica_c10.cfg")
    for seg in rej:
        vlib.report(ctx, "block execution did not complete: %s at %s" % (seg["why"], seg["failing_event"][:800]),
                    {"begin": seg["events"][0], "tail": seg["events"][-4:]}, {"kind": "halt"})
    forged = [ln for ln in lines[:200]] + [json.dumps({"ev": "panic", "h": 9, "where": "forged", "msg": "x"}) + "\n"]
    rej2, _, _ = cc.validate(ctx, forged, "TraceReplica", "tracereplica_c10.cfg")
    if not rej2:
        raise vlib.Infra("self-test failed: forged panic accepted")
    ctx.log("traces: %d valid, %d rejected, %d blocks" % (nv, len(rej), t["blocks"]))
    ctx.coverage.update(traces_validated_against_impl=nv, trace_events=nev, blocks=t["blocks"], tx_kinds=t["tx_kinds"],
                        replica_paths=t["paths"], selftest_forged_panic_rejected=True,
                        samples=[json.loads(x) for x in lines if '"ev":"block"' in x][:3])
