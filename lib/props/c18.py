"""C18 - attestation quotes are accepted only as signed and within policy.

1. design: TLC proves Op (Attest!Outcomes, the order of checks of quote.go / tcb.go / pcs.go) => Rule (Attest!RuleAccept)
   for every case within the bound (region subsets <= 2 x time classes x policy classes x collateral ground truth);
2. generation: the harness derives the scenario table from the repository's vectors (realisable time classes with one
   concrete boundary instant each, evaluation-number classes, regions); TLC enumerates the abstract cases and streams them
   into `vh attest-replay`, which concretises them (bit flips / field-aware patterns on the real quote, TCB info, QE
   identity and certificate chains; concrete instants; concrete policies) and calls the real pcs.QuoteBundle.Verify;
3. verdict: TLC evaluates ONLY the Rule (TraceAttest.tla) on the recorded outcomes.  Differences from Op are MODEL-DRIFT.
"""
import concurrent.futures
import json
import os
import re
import shutil

import vlib

SPEC = ("attest",)
VECTORS = ("quote_v3_ecdsa_p256_pck_chain.bin + tcb_info_v3_fmspc_00606A000000.json + qe_identity_v2.json (SGX, verifies); "
           "quote_v4_tdx_ecdsa_p256.bin + tcb_info_v3_tdx_fmspc_C0806F000000.json + qe_identity_v2_tdx2.json (TDX, verifies); "
           "quote_v4_tdx_ecdsa_p256_out_of_date.bin + tcb_info_v3_tdx_fmspc_50806F000000.json + qe_identity_v2_tdx.json "
           "(TDX, no acceptable TCB level); signing chain tcb_info_v3_fmspc_00606A000000_certs.pem")

_re_bad = re.compile(r'\bbad = "(\w+)"')
_re_badbl = re.compile(r'\bbadbl = "(\w+)"')


def _validate(ctx, cfg, lines, begin_marker='"ev":"begin"', max_rounds=8, timeout=1500):
    """Like vlib.validate_traces, but locates the failing event of an *invariant* violation correctly (TLC prints the
    postcondition failure after the invariant violation) and returns the violated clause."""
    lines = [ln if ln.endswith("\n") else ln + "\n" for ln in lines if ln.strip()]
    nseg = sum(1 for ln in lines if begin_marker in ln)
    nev = len(lines)
    rejected = []
    for _ in range(max_rounds):
        if not lines:
            break
        d = vlib.copy_specs(ctx, *SPEC)
        with open(os.path.join(d, "trace.ndjson"), "w") as f:
            f.writelines(lines)
        res = vlib.run_tlc(ctx, d, "TraceAttest", cfg, workers=1, timeout=timeout, heap="6g", keep_lines=60)
        shutil.rmtree(d, ignore_errors=True)
        if res.ok():
            break
        inv = res.last_state > 0      # TLC prints an error trace (State n:) for an invariant violation only
        if res.error or res.violated is None:
            raise vlib.Infra("trace validation: TLC rc=%s error=%s\n%s" % (res.rc, res.error, "\n".join(t[:300] for t in res.tail[-20:])))
        if inv:
            idx = res.last_state - 2
            clause = "rule"
            for t in res.tail:
                m = (_re_badbl if cfg == "tracebl.cfg" else _re_bad).search(t)
                if m and m.group(1) != "none":
                    clause = m.group(1)
            why = "Rule clause '%s' violated" % clause
        else:
            idx = res.depth - 1
            clause, why = "unexplained", "event not readable by the trace specification"
        if idx < 0 or idx >= len(lines):
            raise vlib.Infra("trace validation: cannot locate failing event (depth %d, state %d, %d lines)" % (res.depth, res.last_state, len(lines)))
        a = idx
        while a > 0 and begin_marker not in lines[a]:
            a -= 1
        b = idx + 1
        while b < len(lines) and begin_marker not in lines[b]:
            b += 1
        rejected.append({"why": why, "clause": clause, "begin": json.loads(lines[a]), "event": json.loads(lines[idx]),
                         "prefix": [json.loads(x) for x in lines[a + 1:idx]]})
        lines = lines[:a] + lines[b:]
    else:
        if max_rounds > 1:
            ctx.notes.append("trace validation stopped after %d rejected segments" % len(rejected))
    return rejected, nseg - len(rejected), nev


def _chunks(lines, size, begin_marker='"ev":"begin"'):
    out, cur = [], []
    for ln in lines:
        if begin_marker in ln and len(cur) >= size:
            out.append(cur)
            cur = []
        cur.append(ln)
    if cur:
        out.append(cur)
    return out


def _validate_parallel(ctx, cfg, lines, size=40000, par=3):
    chunks = _chunks(lines, size)
    rej, nv, nev = [], 0, 0
    with concurrent.futures.ThreadPoolExecutor(max_workers=par) as ex:
        for r, v, e in ex.map(lambda ch: _validate(ctx, cfg, ch), chunks):
            rej += r
            nv += v
            nev += e
    return rej, nv, nev


def _ex(ev):
    x = ev.get("ex")
    return json.loads(x) if isinstance(x, str) and x else x


def _describe(ev):
    x = _ex(ev) or {}
    muts = ["%s:%s@%s" % (m["region"], m["kind"], ",".join("%s+%d%s" % (e["f"], e["off"], (".bit%d" % e["bit"]) if e["bit"] >= 0 else "=" + e.get("hex", "")[:24])
                                                         for e in m["edits"][:3])) for m in (x.get("muts") or [])]
    return ("scenario=%s time=%s(unix %s.%09d) pos=%s policy=%s concrete_policy=%s mutations=%s -> accepted=%s same_id=%s same_rd=%s label=%s err=%s" % (
        ev.get("sid"), ev.get("tid"), x.get("unix"), x.get("nsec") or 0, json.dumps(ev.get("pos"), sort_keys=True),
        json.dumps(ev.get("pol"), sort_keys=True), "nil" if x.get("nil_policy") else json.dumps(x.get("policy")), muts or "none",
        ev.get("accepted"), ev.get("same_id"), ev.get("same_rd"), ev.get("label"), (x.get("err") or "")[:160]))


def _reexecute(ctx, events):
    """Run the concrete examples again on the real code (confirmation / --replay)."""
    out = vlib.run_vh(ctx, ["attest-one", "-in", "-"], stdin="".join(json.dumps(e) + "\n" for e in events))
    return [json.loads(ln) for ln in out.splitlines() if ln.strip()]


def _report(ctx, seg, cfgname):
    ev = seg["event"]
    again = _reexecute(ctx, [ev])
    confirmed = bool(again) and again[0].get("accepted") == ev.get("accepted") and again[0].get("panic") == ev.get("panic")
    how = "alone in a fresh process"
    if not confirmed and seg.get("prefix"):
        # the outcome may depend on what the process verified before (state kept across verifications): run the recorded history
        # of the segment up to the event again, in one fresh process and in the recorded order
        hist = [e for e in seg["prefix"] if e.get("ev") == "case"][-400:] + [ev]
        again = _reexecute(ctx, hist)
        confirmed = len(again) == len(hist) and again[-1].get("accepted") == ev.get("accepted") and again[-1].get("panic") == ev.get("panic")
        how = "after the %d verifications recorded before it in the same process" % (len(hist) - 1)
    keys = {"clause": seg["clause"], "bl": (ev.get("pol") or {}).get("bl"), "mutated": bool(ev.get("mutated"))}
    what = "real QuoteBundle.Verify outcome forbidden by the Rule (%s, re-executed: %s): %s" % (
        seg["why"], ("reproduced " + how) if confirmed else "NOT reproduced", _describe(ev))
    if not confirmed:
        ctx.notes.append("a rejected event did not reproduce on re-execution: " + what[:300])
        return
    vlib.report(ctx, what, {"trace": [seg["begin"], ev], "cfg": cfgname}, keys)


def run(ctx):
    q = ctx.quick()
    ctx.assumptions += [
        "no freshly signed quotes or collateral can be produced (no Intel / attestation keys): soundness is explored only through "
        "mutations of the repository's known-good vectors and through foreign-but-genuine collateral; vectors: " + VECTORS,
        "ground truth used by the Rule (region of a byte, position of the verification time relative to each validity window, FMSPC of the "
        "PCK certificate, TCB status of the platform / QE / TDX module, effect of a mutation on PEM / hex encoded parts) is computed by the "
        "harness with its own decoding (encoding/pem, crypto/x509 parsing, encoding/json), never by the verification code under test",
        "validity window of TCB info / QE identity = [issueDate, issueDate + policy.TCBValidityPeriod days] as documented for the policy field; "
        "the nextUpdate field is not part of the Rule (StrictNextUpdate = FALSE): the code never compares it, acceptances past nextUpdate are "
        "counted in coverage.accepted_past_next_update",
        "TCB status allowed = UpToDate / SWHardeningNeeded for the platform, UpToDate for the QE and the TDX module; the process-global "
        "SetUnsafeLaxVerify / SetAllowDebugEnclaves / SetSkipVerify switches are left at their defaults",
        "boundary instants (exactly notBefore / notAfter / issueDate / issueDate+period) are left to the implementation by the Rule; "
        "1 ns outside is never acceptable",
        "events of the trace are aggregated: one event per distinct (abstract case class, recorded outcome) with a multiplicity and the "
        "first concrete example; the Rule reads only the abstract fields and the outcome",
    ]
    if ctx.replay:
        with open(ctx.replay) as f:
            rp = json.load(f)["replay"]
        evs = _reexecute(ctx, rp["trace"])
        lines = [json.dumps(e, separators=(",", ":")) + "\n" for e in evs]
        nv = 0
        for cfg in ("tracerule.cfg", "tracebl.cfg"):
            rej, v, _ = _validate(ctx, cfg, lines)
            nv += v
            for seg in rej:
                _report(ctx, seg, cfg)
        ctx.coverage.update(states=1, transitions=1, traces_validated_against_impl=nv, samples=[_describe(e) for e in evs if e.get("ev") == "case"] or ["(empty)"])
        return

    # 1. design ------------------------------------------------------------------------------------
    states = trans = 0
    for cfg in (("design_quick.cfg",) if q else ("design_thorough.cfg", "design_thorough2.cfg")):
        d = vlib.copy_specs(ctx, *SPEC)
        res = vlib.run_tlc(ctx, d, "MCAttest", cfg, timeout=1500, heap="12g")
        vlib.tlc_must_pass(ctx, res, "design run Attest Op => Rule (%s)" % cfg)
        ctx.log("design %s: %d generated, %d distinct (%.0fs)" % (cfg, res.generated, res.distinct, res.wall))
        states += res.distinct
        trans += res.generated
        shutil.rmtree(d, ignore_errors=True)
    ctx.coverage.update(states=states, transitions=trans, exhaustive=True)
    # with the case-variant blacklist class the model itself breaks the Rule (Op transcribes the string comparison): a model-level
    # counterexample, which counts only because step 3 reproduces it on the real code (known finding C18-fmspc-blacklist-case-sensitive)
    d = vlib.copy_specs(ctx, *SPEC)
    bres = vlib.run_tlc(ctx, d, "MCAttest", "design_blcase.cfg", workers=1, timeout=300)
    shutil.rmtree(d, ignore_errors=True)
    if bres.error:
        raise vlib.Infra("design_blcase: %s" % bres.error)
    ctx.coverage["model_counterexample_blacklist_letter_case"] = bres.violated == "Sound"

    # 1b. Quoting Enclave identity: the QE report of each vector with one bound / unbound bit flipped, or another ISVSVN, through the
    # exported TCBBundle.Verify (mutations of a whole quote never get there: the PCK signature over the QE report fails first)
    qe_path = ctx.path("qe.ndjson")
    vlib.run_vh(ctx, ["attest-qe", "-out", qe_path])
    qe_lines = open(qe_path).readlines()
    rejq, nvq, nevq = vlib.validate_traces(ctx, SPEC, "TraceQE", "traceqe.cfg", qe_lines)
    for seg in rejq:
        vlib.report(ctx, "Quoting Enclave identity: %s at %s" % (seg["why"], seg["failing_event"][:300]),
                    {"events_tail": seg["events"][-3:]}, {"clause": "qe-identity"})
    qe_ev = [json.loads(x) for x in qe_lines if '"ev":"qe"' in x]
    genuine_rejected = [e for e in qe_ev if e["field"] == "none" and not e["accepted"]]
    if genuine_rejected:
        raise vlib.Infra("attest-qe: the genuine QE report of a vector is rejected (harness out of step with the vectors)")
    unbound_rejected = sum(1 for e in qe_ev if e["field"] in ("miscselect", "flags", "xfrm") and not e["masked"] and not e["accepted"])
    if unbound_rejected:
        line = "MODEL-DRIFT property=C18 %d Quoting Enclave reports that differ from the identity only in an unbound bit were rejected" % unbound_rejected
        ctx.drift.append(line)
        print(line)
    forged = list(qe_lines)
    for i, x in enumerate(forged):
        if '"field":"flags"' in x and '"masked":true' in x and '"accepted":false' in x:
            forged[i] = x.replace('"accepted":false', '"accepted":true')
            break
    rej_self, _, _ = vlib.validate_traces(ctx, SPEC, "TraceQE", "traceqe.cfg", forged, max_rounds=1)
    if not rej_self or "Q1" not in rej_self[0]["why"]:
        raise vlib.Infra("TraceQE self-test: an accepted bound-bit change was not rejected")
    ctx.coverage.update(qe_identity_cases=len(qe_ev), qe_bound_bit_changes=sum(1 for e in qe_ev if e["masked"] and e["field"] != "isvsvn"),
                        qe_unbound_bit_changes=sum(1 for e in qe_ev if not e["masked"] and e["field"] != "none"), qe_selftest="Q1 rejected")
    tcb_ev = [json.loads(x) for x in qe_lines if '"ev":"tcb"' in x]
    if any(e["variant"] == "genuine" and not e["accepted"] for e in tcb_ev) or not any(not e["truth"] for e in tcb_ev):
        raise vlib.Infra("attest-qe: TCB level leg out of step with the vectors (genuine platform rejected, or no unacceptable variant)")
    tcb_drift = sum(1 for e in tcb_ev if e["truth"] and not e["accepted"])
    if tcb_drift:
        line = "MODEL-DRIFT property=C18 %d platforms at an acceptable TCB level were rejected" % tcb_drift
        ctx.drift.append(line)
        print(line)
    ctx.coverage.update(tcb_level_cases=len(tcb_ev), tcb_level_unacceptable=sum(1 for e in tcb_ev if not e["truth"]))
    ctx.log("QE identity: %d cases, TCB levels: %d cases, %d rejected segments" % (len(qe_ev), len(tcb_ev), len(rejq)))

    # 2. scenario table, generation, replay -----------------------------------------------------------
    vps = "30,500,2000" if q else "0,1,30,90,500,2000,65535"
    d = vlib.copy_specs(ctx, *SPEC)
    vlib.run_vh(ctx, ["attest-vectors", "-vp", vps, "-out", os.path.join(d, "scen.json")])
    scen = json.load(open(os.path.join(d, "scen.json")))
    summ_path, trace_path = ctx.path("attest-sum.json"), ctx.path("attest-trace.ndjson")
    args = ["attest-replay", "-in", "-", "-out", summ_path, "-trace", trace_path, "-vp", vps, "-seed", str(ctx.seed)]
    args += ["-bits", "3"] if q else ["-bits", "4", "-sweep", "-stride", "16"]
    vh = vlib.popen_vh(args, env=dict(os.environ, GOGC="400"))
    gres = vlib.run_tlc(ctx, d, "MCAttestGen", "gen_quick.cfg" if q else "gen_thorough.cfg", timeout=1500, sink=vh.stdin, heap="8g")
    vh.stdin.close()
    if vh.wait() != 0:
        raise vlib.Infra("attest-replay failed")
    vlib.tlc_must_pass(ctx, gres, "case generation")
    summ = json.load(open(summ_path))
    if summ["cases"] != gres.emitted or not gres.emitted:
        raise vlib.Infra("emitted %d cases, replayed %d" % (gres.emitted, summ["cases"]))
    ctx.log("replay: %d abstract cases, %d real Verify calls, %d events, %d accepted (%d of them mutants), %d drift, %d panics" % (
        summ["cases"], summ["concrete"], summ["events"], summ["accepted"], summ["accepted_mutants"], summ["drift"], summ["panics"]))

    # every outcome class of the model must be reachable in the generated cases, and observed on the real code
    model_labels = set(summ["exp_labels"])
    all_labels = {"accept", "parse", "disabled", "debug", "tdx_nil", "tdx_module", "pck", "qesig", "qebind", "signchain", "qeid_sig",
                  "qeid_id", "qeid_time", "qeid_eval", "qeid_match", "tcb_sig", "tcb_id", "tcb_time", "tcb_eval", "tcb_wl", "tcb_bl",
                  "fmspc", "tcb_level", "qsig"}
    unreachable_on_vectors = {"qeid_match"}   # needs a QE identity of the right TEE that does not match the QE: no such vector
    missing = all_labels - model_labels - unreachable_on_vectors
    if missing:
        raise vlib.Infra("outcome classes never expected by the model in the generated cases: %s" % sorted(missing))
    unseen = sorted(all_labels - set(summ["by_label"]) - unreachable_on_vectors)
    if unseen:
        ctx.notes.append("outcome classes expected by the model but never produced by the real code: %s" % unseen)
    for e in (summ.get("drift_samples") or [])[:5]:
        line = "MODEL-DRIFT property=C18 real outcome '%s' not in the model's outcome set: %s" % (e.get("label"), _describe(e)[:600])
        ctx.drift.append(line)
        print(line, flush=True)

    # 3. verdict: Rule only ------------------------------------------------------------------------------
    lines = open(trace_path).readlines()
    rej, nv, nev = _validate_parallel(ctx, "tracerule.cfg", lines)
    ctx.log("rule validation: %d segments valid, %d rejected, %d events" % (nv, len(rej), nev))
    for seg in rej:
        _report(ctx, seg, "tracerule.cfg")
    # blacklist clause separately, so that a finding there cannot mask the other clauses (and vice versa)
    bl_lines, keep = [], False
    for ln in lines:
        if '"ev":"begin"' in ln:
            keep = '"bl":"miss"' not in ln
        if keep:
            bl_lines.append(ln)
    rej2, nv2, nev2 = _validate(ctx, "tracebl.cfg", bl_lines, max_rounds=20)
    ctx.log("blacklist clause: %d segments valid, %d rejected, %d events" % (nv2, len(rej2), nev2))
    for seg in rej2:
        _report(ctx, seg, "tracebl.cfg")

    # 4. self-tests ----------------------------------------------------------------------------------------
    selftests = {}
    victim = None
    for ln in lines:
        if '"accepted":false' in ln and '"mutated":true' in ln and '"body_id"' in ln:
            victim = json.loads(ln)
            break
    if victim is None:
        raise vlib.Infra("self-test: no rejected identity mutation recorded")
    forged = dict(victim, accepted=True, same_id=False, same_rd=True, label="accept")
    r3, _, _ = _validate(ctx, "tracerule.cfg", [lines[0], json.dumps(forged, separators=(",", ":"))], max_rounds=1)
    if not r3 or r3[0]["clause"] != "identity":
        raise vlib.Infra("self-test failed: forged accepted mutant with a different identity was not rejected by TraceAttest")
    selftests["forged_accepted_mutant_with_other_identity_rejected"] = True
    forged2 = dict(victim, accepted=True, same_id=True, same_rd=True, label="accept")
    r4, _, _ = _validate(ctx, "tracerule.cfg", [lines[0], json.dumps(forged2, separators=(",", ":"))], max_rounds=1)
    if not r4 or r4[0]["clause"] != "content":
        raise vlib.Infra("self-test failed: forged acceptance of a modified signed region was not rejected")
    selftests["forged_accepted_content_mutation_rejected"] = True
    if not q:
        tv = None
        for ln in lines:
            if '"label":"tcb_time"' in ln and '"mut":[]' in ln:
                tv = json.loads(ln)
                break
        if tv is not None:
            f3 = dict(tv, accepted=True, same_id=True, same_rd=True, label="accept")
            r5, _, _ = _validate(ctx, "tracerule.cfg", [lines[0], json.dumps(f3, separators=(",", ":"))], max_rounds=1)
            if not r5 or r5[0]["clause"] != "time":
                raise vlib.Infra("self-test failed: forged acceptance of expired collateral was not rejected")
            selftests["forged_acceptance_of_expired_collateral_rejected"] = True
        pv = dict(victim, panic=True, label="panic")
        r6, _, _ = _validate(ctx, "tracerule.cfg", [lines[0], json.dumps(pv, separators=(",", ":"))], max_rounds=1)
        if not r6 or r6[0]["clause"] != "panic":
            raise vlib.Infra("self-test failed: a recorded panic was not rejected")
        selftests["recorded_panic_rejected"] = True
        # informative: with nextUpdate enforced by the Rule, how many segments would be rejected
        acc = [ln for ln in lines if '"ev":"begin"' in ln or '"accepted":true' in ln]
        rs, _, _ = _validate(ctx, "tracestrict.cfg", acc, max_rounds=40)
        ctx.coverage["segments_rejected_if_nextUpdate_were_enforced"] = len(rs)

    samples = [_describe(e) for e in (summ.get("samples") or [])[:6]]
    if summ.get("accepted_past_next_update_sample"):
        samples.append("accepted past nextUpdate: " + _describe(summ["accepted_past_next_update_sample"]))
    ctx.coverage.update(
        traces_validated_against_impl=nv + nv2,
        trace_events=nev,
        scenarios=len(scen),
        abstract_cases=summ["cases"],
        real_verify_calls=summ["concrete"],
        accepted=summ["accepted"],
        accepted_mutants_identical_result=summ["accepted_mutants"],
        accepted_mutants_by_region=summ["accepted_mutants_by_region"],
        accepted_mutant_kinds=dict(sorted(summ["accepted_mutant_kinds"].items(), key=lambda kv: -kv[1])[:25]),
        accepted_at_boundary=summ["accepted_at_boundary"],
        accepted_past_next_update=summ["accepted_past_next_update"],
        drift=summ["drift"],
        panics=summ["panics"],
        rule_rejected_segments=len(rej),
        blacklist_clause_rejected_segments=len(rej2),
        by_region=summ["by_region"],
        by_time=summ["by_time"],
        by_policy=summ["by_policy"],
        by_label=summ["by_label"],
        by_scenario=summ["by_scenario"],
        by_model_expectation=summ["by_expect"],
        model_outcome_classes_generated=sorted(model_labels),
        outcome_classes_not_reachable_on_vectors=sorted(unreachable_on_vectors),
        single_bits_swept=sum(summ["bits_swept"].values()),
        single_bits_swept_by_region=summ["bits_swept"] if not q else {},
        selftests=selftests,
        validity_periods_days=[int(x) for x in vps.split(",")],
        samples=samples or ["(none)"],
    )
