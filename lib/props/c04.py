"""C04 - Merkle proofs are complete and cannot be made to lie.

1. design: TLC checks that the transcription of the proof builders (lookup.go / iterator.go / prefetch.go + ProofBuilder), of
   verifyProof and of the remote-backed reader (merge.go, cache.go remoteSync) - MkvsProof.tla - satisfies the declarative rule
   of MkvsProofRule.tla (completeness of honest proofs, soundness of every accepted proof, remote reads return the truth or an
   error) for ALL trees over an adversarial key universe, every query class, both proof versions, siblings on/off, and every
   single mutation (pairs of mutations over a smaller universe), under the perfect-hash assumption;
2. replay: one case per honest (contents, query) and per distinct (contents, mutated proof, mutation kind) is executed on the
   real code by `vh proof-replay`: the REAL proof from SyncGet / SyncIterate / SyncGetPrefixes (no database, badger,
   pathbadger), the structural mutation applied to the real entries (thorough: plus single-byte variants of the touched
   entry), the real VerifyProof / VerifyProofToWriteLog, and real remote-backed trees NewWithRoot(corruptingPeer, nil, root,
   Capacity(..)) with ample, tight and tiny caches; model/code differences are MODEL-DRIFT only;
3. verdict: the recorded outcomes (what accepted proofs and remote reads answer) are validated by TLC against TraceProof.tla,
   which evaluates only the rule; a rejection is a VIOLATION;
4. self-test: a recorded honest event forged into "accepted with a wrong answer" must be rejected.
"""
import json
import os
import shutil

import vlib


def _hex(b):
    return "".join("%02x" % x for x in b)


def _contents(m):
    return "{" + ", ".join('"%s"=%s' % (_hex(k), _hex(v) or '""') for k, v in m) + "}"


class _Side:
    """Side file of the replay: id -> raw case (+ concrete proof) of every recorded event; looked up lazily."""

    def __init__(self, path):
        self.path = path

    def get(self, eid, default=None):
        if not self.path or not os.path.exists(self.path) or eid is None:
            return default or {}
        pre = '{"id":%d,' % eid
        with open(self.path) as f:
            for ln in f:
                if ln.startswith(pre):
                    return json.loads(ln)["rec"]
        return default or {}


def _load_side(path):
    return _Side(path)


def _describe_remote(ev, m):
    reads = []
    for r in ev["reads"]:
        if r["op"] == "get":
            out = "error" if r["err"] else ("absent" if r["s"] == "absent" else "value " + _hex(r["v"]))
            reads.append('Get("%s") -> %s' % (_hex(r["k"]), out))
        elif r["op"] == "iter":
            out = "error" if r["err"] else "[" + ",".join(_hex(k) for k, _ in r["items"]) + "]"
            reads.append('Iterate(seek "%s", %d items; items before the error, if any: %s) -> %s' % (
                _hex(r["k"]), r["n"], ",".join(_hex(k) for k, _ in r["items"]), out))
        else:
            reads.append("%s -> %s" % (r["op"], "error" if r["err"] else "ok"))
    return ("mkvs.NewWithRoot(peer, nil, root, Capacity(%d, %d)) over contents %s (longest path: %d internal nodes), peer responses '%s'"
            " (h=honest, c=corrupted; %s), mutation '%s'; reads in order: %s" % (
                ev["cap"][0], ev["cap"][1], _contents(m), ev["depth"], ev["pat"] or "all honest",
                "only honest responses were delivered" if ev["hon"] else "a corrupted response was delivered",
                ev.get("cm") or "none", "; ".join(reads)))


def _report_event(ctx, why, ev, m, side, extra_keys=None):
    sd = side.get(ev.get("id"), {})
    if ev["ev"] == "remote":
        cls = ev["cls"]
        keys = {"kind": why, "peer": "honest" if ev["hon"] else "corrupt", "cache": cls,
                "capacity_lt_path_depth": ev["cap"][0] != 0 and ev["cap"][0] < ev["depth"]}
        what = "remote-backed tree broke the rule (%s): %s" % (why, _describe_remote(ev, m))
    else:
        keys = {"kind": why, "honest_proof": ev["honest"], "mutation": ev["mk"]}
        what = "proof verification broke the rule (%s): contents %s, query %s, proof version %d, mutation '%s' (%s), accepted=%s, error=%r" % (
            why, _contents(m), json.dumps(ev["q"]), ev["pv"], ev["mk"], ev.get("cm"), ev["acc"], ev.get("err"))
    if extra_keys:
        keys.update(extra_keys)
    return vlib.report(ctx, what, {"contents": m, "event": ev, "case": sd.get("case"), "concrete_proof": sd.get("proof"),
                                   "thorough": ev.get("mk") == "byte" or ctx.tier == "thorough"}, keys)


def _validate_main(ctx, lines, side, max_reports=8):
    rej, nv, nev = vlib.validate_traces(ctx, ("mkvs",), "TraceProof", "traceproof.cfg", lines, max_rounds=max_reports)
    for seg in rej:
        m = seg["events"][0].get("m", [])
        ev = json.loads(seg["failing_event"])
        why = seg["why"]
        if ev.get("ev") in ("case", "remote"):
            # name of the broken clause: re-evaluate the single event in listing mode
            bl = _list_bad(ctx, [json.dumps(seg["events"][0]) + "\n", seg["failing_event"] + "\n"])
            if bl:
                why = bl[0]["bad"]
            _report_event(ctx, why, ev, m, side)
        else:
            vlib.report(ctx, "trace not explained: %s at %s" % (why, seg["failing_event"][:300]), {"trace": seg["events"][-5:]}, {"kind": "trace"})
    return rej, nv, nev


def _list_bad(ctx, lines, timeout=1800):
    """Run TraceProof in listing mode: returns the list of {l, bad, id} of ALL events that break a clause."""
    if not lines:
        return []
    d = vlib.copy_specs(ctx, "mkvs")
    with open(os.path.join(d, "trace.ndjson"), "w") as f:
        f.writelines(lines)
    out = []
    res = vlib.run_tlc(ctx, d, "TraceProof", "traceproof_list.cfg", workers=1, timeout=timeout, sink=out.append)
    shutil.rmtree(d, ignore_errors=True)
    if not res.ok() or not out:
        raise vlib.Infra("trace listing: TLC rc=%s violated=%s error=%s\n%s" % (res.rc, res.violated, res.error, "\n".join(res.tail[-30:])))
    return json.loads(out[-1])["badlog"]


def _tiny_groups(ctx, lines, side, groups):
    """Remote reads with node caches smaller than the depth of the tree: list every offending event and keep, per
    (clause, peer) class, the smallest example."""
    bad = _list_bad(ctx, lines)
    m = []
    begin_of = {}
    for i, ln in enumerate(lines):
        if '"ev":"begin"' in ln:
            m = json.loads(ln)["m"]
        begin_of[i + 1] = m
    for b in bad:
        ev = json.loads(lines[b["l"] - 1])
        key = (b["bad"], ev["hon"])
        size = (not ev["hon"] or bool(ev.get("cm")), len(begin_of[b["l"]]), len(ev["reads"]), ev["cap"][0], len(ev.get("cm") or ""))
        g = groups.setdefault(key, {"n": 0, "best": None, "size": None})
        g["n"] += ev.get("count", 1)
        if g["size"] is None or size < g["size"]:
            g["size"], g["best"] = size, (ev, begin_of[b["l"]], side)
    return len(bad)


def _report_tiny(ctx, groups):
    for (why, hon), g in sorted(groups.items(), key=lambda kv: (not kv[0][1], kv[0][0])):
        ev, mm, side = g["best"]
        _report_event(ctx, why, ev, mm, side, {"events_in_class": None} if False else None)
    return {"%s/%s" % (k[0], "honest-peer" if k[1] else "corrupt-peer"): g["n"] for k, g in groups.items()}


def _replay_cases(ctx, cfg, thorough, tag, timeout=3000):
    d = vlib.copy_specs(ctx, "mkvs")
    summ, trace, tiny, side = (ctx.path("%s-%s" % (tag, x)) for x in ("sum.json", "trace.ndjson", "tiny.ndjson", "side.ndjson"))
    args = ["proof-replay", "-in", "-", "-out", summ, "-trace", trace, "-tiny", tiny, "-cases", side]
    if thorough:
        args.append("-thorough")
    vh = vlib.popen_vh(args)
    res = vlib.run_tlc(ctx, d, "MCMkvsProof", cfg, timeout=timeout, sink=vh.stdin)
    vh.stdin.close()
    rc = vh.wait()
    shutil.rmtree(d, ignore_errors=True)
    vlib.tlc_must_pass(ctx, res, "generation " + cfg)
    if rc != 0:
        raise vlib.Infra("proof-replay failed rc=%d" % rc)
    s = json.load(open(summ))
    if s["cases"] + s["inapplicable"] != res.emitted or res.emitted == 0:
        raise vlib.Infra("%s: emitted %d cases, replayed %d (+%d inapplicable)" % (cfg, res.emitted, s["cases"], s["inapplicable"]))
    ctx.log("%s: %d cases (%d honest, %d mutants, %d accepted), %d byte variants (%d accepted), %d remote trees / %d reads; drift: builder %d verdict %d shape %d determined %d remote %d/%d inapplicable %d; panics %d; events %d + %d tiny-cache" % (
        cfg, s["cases"], s["honest"], s["mutants"], s["accepted_mutants"], s["byte_variants"], s["accepted_byte_variants"], s["remote_trees"],
        s["remote_reads"], s["builder_drift"], s["verdict_drift"], s["shape_drift"], s["determined_drift"], s["remote_drift"], s["remote_compared"], s["inapplicable"], s["panics"],
        s["events"], s["tiny_events"]))
    return res, s, trace, tiny, side


def _merge(a, b):
    for k, v in b.items():
        a[k] = a.get(k, 0) + v
    return a


def run(ctx):
    q = ctx.quick()
    ctx.assumptions += [
        "perfect hash: the hash of a subtree is its structural term; real SHA-512/256 is bound to it only through equality, i.e. collision resistance of SHA-512/256 is assumed",
        "design bound: trees over <= 4 keys of an adversarial universe of 4 (quick) / 5 (thorough) keys (empty key, prefix chain a < ab < ab\\x00, "
        "neighbours ab/ac, first-bit neighbour \\x80), values from {'', 01}; every single mutation; pairs of mutations over a 3-key universe",
        "answers derivable from a verified proof are defined as the lookup / in-order iteration on the verified subtree (PLookup, PIter in MkvsProof.tla; "
        "the harness walks the real *node.Pointer tree the same way); the verdict compares them with the contents TLC emitted, not with what the code says",
        "remote-backed trees: node cache unlimited (ample), depth..depth+2 (tight) and 1..depth-1 (tiny), value cache unlimited/1/16/64 bytes, where depth = "
        "internal nodes on the longest path; an error is an allowed outcome whenever a corrupted response was delivered or the node cache is smaller than the depth",
        "byte-level variants (thorough): every byte of the touched entry xor 01/80/ff and +1, all 255 values of the first bytes of honest entries, truncations, extensions",
    ]
    if ctx.replay:
        rp = json.load(open(ctx.replay))["replay"]
        if not rp.get("case"):
            raise vlib.Infra("replay file carries no case")
        inp = ctx.path("replay-cases.ndjson")
        with open(inp, "w") as f:
            f.write(json.dumps(rp["case"]) + "\n")
        summ, trace, tiny, side = (ctx.path("rp-" + x) for x in ("sum.json", "trace.ndjson", "tiny.ndjson", "side.ndjson"))
        eid = (rp.get("event") or {}).get("id") or 1
        # same id => same rotation of backends and cache sizes as in the run that found it (quick tier rotation first)
        args = ["proof-replay", "-in", inp, "-out", summ, "-trace", trace, "-tiny", tiny, "-cases", side, "-firstid", str(eid)]
        vlib.run_vh(ctx, args + (["-thorough"] if rp.get("thorough") or ctx.tier == "thorough" else []))
        sd = _load_side(side)
        rej, nv, nev = _validate_main(ctx, open(trace).readlines(), sd)
        groups = {}
        nt = _tiny_groups(ctx, open(tiny).readlines(), sd, groups)
        _report_tiny(ctx, groups)
        ctx.log("replay: %d events, %d rejected, %d tiny-cache offenders" % (nev, len(rej), nt))
        ctx.coverage.update(states=1, transitions=1, traces_validated_against_impl=nv, samples=[rp["case"]])
        return

    # 1. design: Op satisfies Rule
    d = vlib.copy_specs(ctx, "mkvs")
    res = vlib.run_tlc(ctx, d, "MCMkvsProof", "design_proof_quick.cfg" if q else "design_proof_thorough.cfg", timeout=3000)
    vlib.tlc_must_pass(ctx, res, "design run (MkvsProof satisfies MkvsProofRule)")
    ctx.log("design singles: %d generated, %d distinct" % (res.generated, res.distinct))
    states, trans = res.distinct, res.generated
    d = vlib.copy_specs(ctx, "mkvs")
    res2 = vlib.run_tlc(ctx, d, "MCMkvsProof", "design_proof_pairs.cfg" if q else "design_proof_pairs_thorough.cfg", timeout=3000)
    vlib.tlc_must_pass(ctx, res2, "design run (pairs of mutations)")
    ctx.log("design pairs: %d generated, %d distinct" % (res2.generated, res2.distinct))
    ctx.coverage.update(states=states + res2.distinct, transitions=trans + res2.generated, exhaustive=True,
                        design_states_single_mutations=states, design_states_mutation_pairs=res2.distinct)

    # 2. generation -> replay on the real code
    runs = [_replay_cases(ctx, "gen_proof_quick.cfg" if q else "gen_proof_thorough.cfg", not q, "singles")]
    runs.append(_replay_cases(ctx, "gen_proof_pairs.cfg", not q, "pairs"))
    # prefix fetches over nested prefixes in either order (narrow then broad, broad then narrow, a prefix twice) with keys before,
    # inside and after the narrow range; honest proofs only: what is asked for must be determined by the proof
    resn = vlib.run_tlc(ctx, d, "MCMkvsProof", "design_proof_nested.cfg", timeout=3000)
    vlib.tlc_must_pass(ctx, resn, "design run nested prefixes")
    runs.append(_replay_cases(ctx, "gen_proof_nested.cfg", not q, "nested"))
    tot = {}
    by = {k: {} for k in ("by_class", "by_kind", "by_kind_accepted", "by_version", "by_op", "verdict_drift_by_kind", "verify_error_texts")}
    samples, drift_samples = [], []
    for _, s, _, _, _ in runs:
        for k in ("cases", "honest", "mutants", "accepted_mutants", "byte_variants", "accepted_byte_variants", "verifications", "remote_trees",
                  "remote_reads", "builder_drift", "verdict_drift", "remote_drift", "remote_compared", "inapplicable", "backend_differ", "panics", "shape_drift", "determined_drift",
                  "events", "tiny_events", "trees"):
            tot[k] = tot.get(k, 0) + s[k]
        for k in by:
            _merge(by[k], s[k] or {})
        samples += s["samples"] or []
        drift_samples += s["drift_samples"] or []
    # the same lookups asked from other positions (zero hash, subtrees below the root, a foreign hash)
    npos = 0
    for _, s_, _, _, _ in runs:
        npos += s_.get("position_requests", 0)
        for pp in (s_.get("position_problems") or [])[:3]:
            vlib.report(ctx, "proof produced for a lookup from position %s on %s: %s (contents %s, key %s)" % (
                pp["position"][:16], pp["backend"], pp["problem"][:300], json.dumps(pp["m"])[:200], pp["key"]), pp, {"kind": "position"})
    if not npos:
        raise vlib.Infra("no position-variant lookups were made")
    ctx.coverage.update(position_variant_lookups=npos)
    ndrift = (tot["builder_drift"] + tot["verdict_drift"] + tot["remote_drift"] + tot["inapplicable"] + tot["backend_differ"]
              + tot["shape_drift"] + tot["determined_drift"])
    for dsm in drift_samples[:6]:
        line = "MODEL-DRIFT property=C04 %s: %s" % (dsm.get("what"), json.dumps({k: v for k, v in dsm.items() if k != "what"})[:400])
        ctx.drift.append(line)
        print(line, flush=True)

    # 3. verdict: TLC evaluates the rule on what the real code did
    nvalid = nevents = nrej = 0
    tiny_off, groups = 0, {}
    main_lines_all = []
    for _, s, trace, tiny, side in runs:
        sd = _load_side(side)
        lines = open(trace).readlines()
        main_lines_all = main_lines_all or lines
        rej, nv, nev = _validate_main(ctx, lines, sd)
        nvalid, nevents, nrej = nvalid + nv, nevents + nev, nrej + len(rej)
        tl = open(tiny).readlines()
        n = _tiny_groups(ctx, tl, sd, groups)
        tiny_off += n
        nevents += len(tl)
        nvalid += sum(1 for x in tl if '"ev":"begin"' in x) if n == 0 else 0
    tiny_classes = _report_tiny(ctx, groups)
    ctx.log("rule traces: %d tree segments valid, %d rejected, %d events; tiny-cache offenders: %d %s" % (nvalid, nrej, nevents, tiny_off, tiny_classes))

    # 4. self-test: forge one honest accepted lookup into a wrong answer; TLC must reject it
    forged = None
    begin = None
    for ln in main_lines_all:
        if '"ev":"begin"' in ln:
            begin = ln
            continue
        if '"ev":"case"' in ln and '"honest":true' in ln and '"acc":true' in ln and '"op":"get"' in ln:
            ev = json.loads(ln)
            hit = [a for a in ev["ans"] if a["s"] == "val"]
            if hit:
                hit[0]["v"] = hit[0]["v"] + [7]
                forged = [begin, json.dumps(ev) + "\n"]
                break
    if not forged:
        raise vlib.Infra("self-test: no honest accepted lookup of a present key in the trace")
    rej, _, _ = vlib.validate_traces(ctx, ("mkvs",), "TraceProof", "traceproof.cfg", forged, max_rounds=1)
    if not rej or "RuleHolds" not in rej[0]["why"]:
        raise vlib.Infra("self-test failed: an accepted proof with a forged (wrong) answer was not rejected by TraceProof")
    ctx.notes[:] = [n for n in ctx.notes if not n.startswith("trace validation stopped")]
    ev = json.loads(forged[1])
    ev["acc"], ev["accwl"] = False, False
    rej, _, _ = vlib.validate_traces(ctx, ("mkvs",), "TraceProof", "traceproof.cfg", [forged[0], json.dumps(ev) + "\n"], max_rounds=1)
    ctx.notes[:] = [n for n in ctx.notes if not n.startswith("trace validation stopped")]
    if not rej:
        raise vlib.Infra("self-test failed: a rejected honest proof was not flagged by TraceProof")

    ctx.coverage.update(
        traces_validated_against_impl=nvalid, trace_events=nevents, trace_segments_rejected=nrej,
        replayed_cases=tot["cases"], honest_cases=tot["honest"], mutant_cases=tot["mutants"], byte_variants=tot["byte_variants"],
        real_verifications=tot["verifications"], remote_trees=tot["remote_trees"], remote_reads=tot["remote_reads"],
        distinct_trees=tot["trees"], backends="mem badger pathbadger",
        query_class_counts=by["by_class"], mutation_kind_counts=by["by_kind"], proof_version_counts=by["by_version"], op_counts=by["by_op"],
        accepted_harmless_mutants=tot["accepted_mutants"], accepted_harmless_mutants_by_kind=by["by_kind_accepted"],
        accepted_harmless_byte_variants=tot["accepted_byte_variants"], real_reject_reasons=by["verify_error_texts"],
        drift_count=ndrift, drift_builder=tot["builder_drift"], drift_verdict=tot["verdict_drift"], drift_verdict_by_kind=by["verdict_drift_by_kind"],
        drift_remote=tot["remote_drift"], drift_mutated_proof_shape=tot["shape_drift"], drift_determined=tot["determined_drift"], remote_predictions_compared=tot["remote_compared"], mutations_inapplicable_to_real_proof=tot["inapplicable"],
        backend_proofs_differ=tot["backend_differ"], panics=tot["panics"],
        tiny_cache_offending_events=tiny_off, tiny_cache_offender_classes=tiny_classes,
        selftest_forged_answer_rejected=True, selftest_rejected_honest_proof_flagged=True,
        samples=[json.loads(x) if isinstance(x, str) else x for x in samples[:4]] or ["none"])
