"""C08 - a failed transaction changes nothing but fee and nonce.

The rule is evaluated by TLC (TraceLedger.tla, clauses C08) on observations of real multiplexers: around EVERY DeliverTx the
harness snapshots all raw keys of the in-flight block state (through the public ApplicationState.NewContext - no hook) and the
decoded ledger.  For a transaction that failed after authentication exactly one raw key may differ - the signer's account -
and in it only nonce (+1) and balance (-fee); for one rejected at or before authentication no key may differ.  CheckTx and
EstimateGas bursts between commits must leave the committed root unchanged (checked by the driver).
Scenarios: every staking method, node registration and unfreeze, runtimes, governance, executor commitments, VRF proofs, vaults
(TraceVault.tla: a failed transaction leaves the vault state - policies, bucket accounting, pending actions - as it was); invalid in every single respect (nonce, balance, fee not
covered, gas limit at every exhaustion point, malformed body, bad signature, other chain, other domain, junk bytes, replays).
"""
import vlib
from props import cons_common as cc


def mutate(events):
    for i, e in enumerate(events):
        if e.get("ev") == "tx" and e.get("code") != 0 and e.get("nraw") == 1:
            e["nraw"] = 2      # a failed transaction touching a second key
            return i, events
    return None, events


def run(ctx):
    ctx.assumptions += [
        "raw key snapshots cover the complete consensus state tree (all applications)",
        "key-manager methods and runtime messages are not generated (see DESIGN.md)",
    ]
    if ctx.replay:
        raise vlib.Infra("re-run the tier with the same VERIF_SEED to reproduce")
    d = vlib.copy_specs(ctx, "consensus")
    res = vlib.run_tlc(ctx, d, "MCLedger", "design_ledger_quick.cfg", timeout=3000)
    vlib.tlc_must_pass(ctx, res, "design run LedgerModel")
    # the vault application's model: quota, authority, suspension and nonce statements for all behaviours of one vault
    rv = vlib.run_tlc(ctx, d, "MCVault", "design_vault_quick.cfg" if ctx.quick() else "design_vault_thorough.cfg", timeout=3000)
    vlib.tlc_must_pass(ctx, rv, "design run Vault")
    ctx.coverage.update(states=res.distinct + rv.distinct, transitions=res.generated + rv.generated, vault_design_states=rv.distinct)
    lines, sums = cc.ledger_check(ctx, "C08", "traceledger_c08.cfg", mutate, "tx atomicity")
    cc.vault_check(ctx, ctx.vault_lines, "C08")
    failed_after = sum(1 for ln in lines if '"ev":"tx"' in ln and '"code":0,' not in ln and '"nraw":1' in ln)
    rejected = sum(1 for ln in lines if '"ev":"tx"' in ln and '"code":0,' not in ln and '"nraw":0' in ln)
    ctx.coverage.update(failed_after_auth=failed_after, rejected_before_effect=rejected)
    if failed_after < 5 or rejected < 5:
        raise vlib.Infra("vacuous run: %d failed-after-auth, %d rejected transactions" % (failed_after, rejected))
