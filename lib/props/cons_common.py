"""Shared by the consensus-family checks (C01, C05, C08, C09, C10, C14, C15, C17): run seeded scenarios on real replica networks
(`vh cons-run`) in parallel and validate the observer's traces with TLC."""
import concurrent.futures
import json
import os
import subprocess

import vlib


VRF = ["-vrf", "-epoch", "6", "-validators", "4"]


def run_scenarios(ctx, seeds, blocks, extra=(), vh=None, env=None, halt_ok=False):
    """Runs `vh cons-run` for every seed (in parallel).  Returns (trace_lines, summaries)."""
    def one(seed):
        d = ctx.path("cons-%d" % seed)
        os.makedirs(d, exist_ok=True)
        tr, sm = os.path.join(d, "trace.ndjson"), os.path.join(d, "sum.json")
        p = subprocess.run([vh or vlib.VH, "cons-run", "-seed", str(seed), "-blocks", str(blocks), "-out", tr, "-summary", sm,
                            "-scratch", os.path.join(d, "scr")] + list(extra), stdout=subprocess.PIPE, stderr=subprocess.PIPE, text=True,
                           env=dict(os.environ, **(env or {})))
        if p.returncode != 0:
            raise vlib.Infra("cons-run seed %d failed: %s" % (seed, p.stderr[-2000:]))
        s = json.load(open(sm))
        s["seed"] = seed
        lines = open(tr).readlines()
        subprocess.run(["rm", "-rf", os.path.join(d, "scr")])
        return lines, s
    lines, sums = [], []
    with concurrent.futures.ThreadPoolExecutor(max_workers=min(12, vlib.NCPU)) as ex:
        for ls, s in ex.map(one, seeds):
            lines += ls
            sums.append(s)
    for s in sums:
        if s.get("error"):
            ctx.notes.append("seed %d stopped early: %s" % (s["seed"], s["error"]))
            # a chain that halts is C10's verdict (its check passes halt_ok); for every other property the rest of the scenario was
            # never executed, which is an exploration failure (exit 2), not a pass
            if not halt_ok:
                if not hasattr(ctx, "deferred_infra"):
                    ctx.deferred_infra = []
                ctx.deferred_infra.append("scenario seed %d %s stopped after %d blocks: %s (panics: %s)" % (
                    s["seed"], " ".join(extra), s.get("blocks", 0), s["error"], str(s.get("panics"))[:300]))
    return lines, sums


def validate(ctx, lines, module, cfg):
    return vlib.validate_traces(ctx, ("consensus",), module, cfg, lines, begin_marker='"ev":"begin_chain"', timeout=3000)


def totals(sums):
    t = {"blocks": 0, "events": 0, "rejects": 0, "paths": {}, "tx_kinds": {}}
    for s in sums:
        t["blocks"] += s["blocks"]
        t["events"] += s["events"]
        t["rejects"] += s["rejects"]
        for k in ("paths", "tx_kinds"):
            for a, b in (s.get(k) or {}).items():
                t[k][a] = t[k].get(a, 0) + b
    return t


def ledger_check(ctx, pid, cfg, selftest_mutator, what):
    """Common body of C05 / C08 / C09 / C15: scenarios -> TraceLedger validation with only this property's clauses."""
    q = ctx.quick()
    seeds = [ctx.seed * 1000 + i for i in range(6 if q else 160)]
    blocks = 120 if q else 400
    lines, sums = run_scenarios(ctx, seeds, blocks)
    # the same scenario family on the VRF beacon backend (the production one): nodes submit VRF proofs as transactions
    l2, s2 = run_scenarios(ctx, [x + 300 for x in seeds[:max(2, len(seeds) // 3)]], blocks, extra=VRF)
    # ... and with a minimum balance an account must keep to transact (fee covered, minimum not: rejected before any effect)
    l3, s3 = run_scenarios(ctx, [x + 600 for x in seeds[:max(2, len(seeds) // 3)]], blocks, extra=["-mintransact", "3"])
    # ... debonding intervals 0 (an entry is due at the very next transition) and 2, tiny stakes (slashes larger than the escrow)
    l4, s4 = run_scenarios(ctx, [x + 700 for x in seeds[:max(2, len(seeds) // 3)]], blocks, extra=["-debond", "0"])
    l5, s5 = run_scenarios(ctx, [x + 800 for x in seeds[:max(2, len(seeds) // 3)]], blocks, extra=["-debond", "2", "-tinystake", "-validators", "5"])
    # ... and with the vault application in use: vaults, actions authorized by their authorities, deposits, withdrawals through the
    # staking account hook (within / above the policy's quota, above the vault's balance, from suspended vaults)
    l6, s6 = run_scenarios(ctx, [x + 900 for x in seeds[:max(3, len(seeds) // 3)]], blocks, extra=["-vault"])
    lines += l2 + l3 + l4 + l5 + l6
    sums += s2 + s3 + s4 + s5 + s6
    ctx.vault_lines = l6
    t = totals(sums)
    ctx.log("scenarios: %d seeds (%d on the VRF beacon), %d blocks, %d events" % (len(sums), len(s2), t["blocks"], t["events"]))
    rej, nv, nev = validate(ctx, lines, "TraceLedger", cfg)
    for seg in rej:
        vlib.report(ctx, "%s: recorded consensus state breaks the rule (%s) at %s" % (pid, seg["why"], seg["failing_event"][:400]),
                    {"seed_event": seg["events"][0], "failing_index": seg["failing_index_in_segment"], "events_tail": seg["events"][-6:]},
                    {"kind": seg["why"]})
    ctx.log("traces: %d valid, %d rejected, %d events" % (nv, len(rej), nev))
    # self-test: corrupt one recorded field; TLC must reject exactly that event
    seg0 = []
    for ln in lines:
        if '"ev":"begin_chain"' in ln and seg0:
            break
        seg0.append(ln)
    idx, forged = selftest_mutator([json.loads(x) for x in seg0])
    if idx is None:
        raise vlib.Infra("self-test: no suitable event to corrupt")
    rej2, _, _ = validate(ctx, [json.dumps(e) + "\n" for e in forged], "TraceLedger", cfg)
    if not rej2:
        raise vlib.Infra("self-test failed: corrupted %s trace accepted" % pid)
    if rej2[0]["failing_index_in_segment"] != idx:
        ctx.notes.append("self-test: corrupted event %d, TLC located %d" % (idx, rej2[0]["failing_index_in_segment"]))
    ntx = sum(v for k, v in t["tx_kinds"].items())
    ctx.coverage.update(
        traces_validated_against_impl=nv, trace_events=nev, blocks=t["blocks"], transactions=ntx, tx_kinds=t["tx_kinds"],
        replica_paths=t["paths"], selftest_corrupt_rejected=True, selftest_located=rej2[0]["why"],
        samples=[json.loads(x) for x in lines[3:5]])
    return lines, sums


def governance_check(ctx, lines):
    """TraceGovernance.tla on the recorded scenarios.  G5 (deposit pool = deposits of the active proposals) is a clause of C05 and
    is reported as such; G1-G4 (life cycle, closing epoch, votes, stake-weighted tally) describe behaviour outside the listed
    properties: a deviation is printed as SPEC-DEVIATION and kept in the evidence notes, it does not change the exit code."""
    rej, nv, nev = validate(ctx, lines, "TraceGovernance", "tracegovernance.cfg")
    dev = 0
    for seg in rej:
        if "G5:" in seg["why"]:
            vlib.report(ctx, "C05: %s at %s" % (seg["why"], seg["failing_event"][:400]),
                        {"seed_event": seg["events"][0], "failing_index": seg["failing_index_in_segment"], "events_tail": seg["events"][-4:]},
                        {"kind": "governance-deposits"})
        else:
            dev += 1
            line = "SPEC-DEVIATION governance (outside the listed properties) %s: %s at %s" % (
                json.dumps(seg["events"][0])[:160], seg["why"], seg["failing_event"][:300])
            if dev <= 3:
                print(line)
                ctx.notes.append(line[:600])
    # what the scenarios exercised (vacuity guard) and self-tests (each forged record must be rejected at its clause)
    st = {"proposals": 0, "passed": 0, "failed": 0, "rejected_with_yes": 0, "votes_accepted": 0, "votes_by_non_entities": 0, "closings_with_override": 0,
          "upgrade_proposals_closed": 0, "upgrades_passed": 0, "cancellations_passed": 0, "blocks_with_pending_upgrade": 0}
    last = None
    closing_block = None      # (segment lines up to and including an end event in which a proposal with votes closes)
    seg = []
    for ln in lines:
        if '"ev":"begin_chain"' in ln:
            seg, last = [], None
        seg.append(ln)
        if '"ev":"tx"' in ln and ('"kind":"vote"' in ln):
            e = json.loads(ln)
            if e["code"] == 0:
                st["votes_accepted"] += 1
                if e["spec"]["signer"].startswith("U"):
                    st["votes_by_non_entities"] += 1
        elif '"ev":"end"' in ln:
            e = json.loads(ln)
            ps = e["gov"]["proposals"]
            prev = {p["id"]: p for p in (last or [])}
            st["blocks_with_pending_upgrade"] += bool(e["gov"].get("pending_upgrades"))
            for p in ps:
                if p["state"] != "active" and prev.get(p["id"], {"state": "active"})["state"] == "active":
                    st["proposals"] += 1
                    st["passed"] += p["state"] == "passed"
                    st["failed"] += p["state"] == "failed"
                    st["upgrade_proposals_closed"] += p["kind"] == "upgrade"
                    st["upgrades_passed"] += p["kind"] == "upgrade" and p["state"] == "passed"
                    st["cancellations_passed"] += p["kind"] == "cancel" and p["state"] == "passed"
                    st["rejected_with_yes"] += p["state"] == "rejected" and p["results"]["yes"] > 0
                    voters = {v[0] for v in p["votes"]}
                    vals = set(e["gov"]["vals"])
                    if any(d[0] in voters and d[0] != d[1] and d[1] in vals for d in e["state"]["del"]):
                        st["closings_with_override"] += 1
                    if closing_block is None and p["votes"] and p["results"]["yes"] > 0:
                        closing_block = (list(seg), p["id"])
            last = ps
    ctx.log("governance: %d valid, %d rejected (%d outside the listed properties); %s" % (nv, len(rej), dev, st))
    if st["proposals"] < 3 or st["votes_accepted"] < 5:
        ctx.deferred_infra.append("vacuous governance run: %s" % st)
    tests = {}
    if closing_block:
        seg0, pid_ = closing_block

        def forge(fn):
            evs = [json.loads(x) for x in seg0]
            fn(evs[-1])
            r, _, _ = validate(ctx, [json.dumps(e) + "\n" for e in evs], "TraceGovernance", "tracegovernance.cfg")
            return r[0]["why"] if r else None

        def f_res(e):
            [p for p in e["gov"]["proposals"] if p["id"] == pid_][0]["results"]["yes"] += 1

        def f_state(e):
            p = [p for p in e["gov"]["proposals"] if p["id"] == pid_][0]
            p["state"] = "passed" if p["state"] == "rejected" else "rejected"

        def f_dep(e):
            e["state"]["govdep"] += 100

        def f_vote(e):
            [p for p in e["gov"]["proposals"] if p["id"] == pid_][0]["votes"].append(["ZZ", "yes"])

        for name, fn, want in (("results", f_res, "G4"), ("outcome", f_state, "G4"), ("deposit_pool", f_dep, "G5"), ("phantom_vote", f_vote, "G3")):
            why = forge(fn)
            if not why or (want + ":") not in why:
                raise vlib.Infra("governance self-test %s: forged record %s" % (name, "accepted" if not why else "rejected by " + why))
            tests[name] = why[-110:]
    ctx.coverage.update(governance=st, governance_traces_valid=nv, governance_deviations=dev, governance_selftests=tests)


def vault_check(ctx, lines, pid):
    """TraceVault.tla on the scenarios that use the vault application.  The model of the vault application (VaultOps.tla) is stepped
    along the recorded transactions; the recorded vault state after every transaction and at the end of every block must be the
    model's.  A failed transaction that changed the vault state is a clause of C08 and is reported under it (when pid is C08);
    the other clauses (V1-V3, V5) describe behaviour outside the listed properties: a deviation is printed as SPEC-DEVIATION and
    kept in the evidence notes, it does not change the exit code."""
    rej, nv, nev = validate(ctx, lines, "TraceVault", "tracevault.cfg")
    dev = 0
    for seg in rej:
        if "V4/C08" in seg["why"] and pid == "C08":
            vlib.report(ctx, "C08: %s at %s" % (seg["why"], seg["failing_event"][:400]),
                        {"seed_event": seg["events"][0], "failing_index": seg["failing_index_in_segment"], "events_tail": seg["events"][-3:]},
                        {"kind": "vault-failed-tx"})
        else:
            dev += 1
            line = "SPEC-DEVIATION vault (outside the listed properties) %s: %s at %s" % (
                json.dumps(seg["events"][0])[:160], seg["why"], seg["failing_event"][:300])
            if dev <= 3:
                print(line)
                ctx.notes.append(line[:600])
    # what the scenarios exercised (vacuity guard)
    st = {"vaults": 0, "actions_executed": 0, "authorizations_pending": 0, "cancelled": 0, "withdrawn": 0, "withdraw_forbidden": 0,
          "withdraw_authorized_but_failed": 0, "refused_by_vault": 0, "suspended_blocks": 0}
    seg, samples = [], {}
    for ln in lines:
        if '"ev":"begin_chain"' in ln:
            seg = []
        seg.append(ln)
        if '"ev":"tx"' in ln and '"vault":' in ln:
            e = json.loads(ln)
            sp, ok = e["spec"], e["code"] == 0
            k = sp.get("kind")
            if k == "vcreate" and ok:
                st["vaults"] += 1
            elif k == "vauth" and ok:
                pend = any(p for v in e["vault"] if v["id"] == sp.get("to") for p in v["pending"])
                st["authorizations_pending" if pend else "actions_executed"] += 1
                if not pend and "exec" not in samples:
                    samples["exec"] = list(seg)
            elif k == "vcancel" and ok:
                st["cancelled"] += 1
            elif k in ("vauth", "vcancel", "vcreate") and e.get("module") == "vault":
                st["refused_by_vault"] += 1
                if k == "vauth" and e["code"] == 5 and "forbidden" not in samples:
                    samples["forbidden"] = list(seg)
            elif k == "withdraw" and str(sp.get("to", "")).startswith("V"):
                if ok and sp["amount"] > 0:
                    st["withdrawn"] += 1
                    if "withdrawn" not in samples:
                        samples["withdrawn"] = list(seg)
                elif e.get("module") == "staking" and e["code"] == 5:
                    st["withdraw_forbidden"] += 1
                    if "wforbidden" not in samples:
                        samples["wforbidden"] = list(seg)
                elif e.get("module") == "staking" and e["code"] in (3, 4):
                    st["withdraw_authorized_but_failed"] += 1
        elif '"ev":"end"' in ln and '"vault":' in ln and '"active":false' in ln:
            st["suspended_blocks"] += 1
    ctx.log("vault: %d valid, %d rejected (%d outside the listed properties); %s" % (nv, len(rej), dev, st))
    if st["vaults"] < 2 or st["actions_executed"] < 5 or st["withdrawn"] < 3 or st["withdraw_forbidden"] < 3 or st["authorizations_pending"] < 1:
        if not hasattr(ctx, "deferred_infra"):
            ctx.deferred_infra = []
        ctx.deferred_infra.append("vacuous vault run: %s" % st)
    # self-tests: each forged record must be rejected at its clause
    tests = {}

    def forge(name, key, fn, want):
        if key not in samples:
            return
        evs = [json.loads(x) for x in samples[key]]
        fn(evs[-1])
        r, _, _ = validate(ctx, [json.dumps(e) + "\n" for e in evs], "TraceVault", "tracevault.cfg")
        why = r[0]["why"] if r else None
        if not why or want not in why:
            raise vlib.Infra("vault self-test %s: forged record %s" % (name, "accepted" if not why else "rejected by " + why))
        tests[name] = why[-120:]

    def f_nonce(e):
        [v for v in e["vault"] if v["id"] == e["spec"]["to"]][0]["nonce"] += 1

    def f_code(e):
        e["code"] = 0

    def f_amount(e):
        for v in e["vault"]:
            if v["id"] == e["spec"]["to"]:
                for s_ in v["states"]:
                    if s_["addr"] == e["spec"]["signer"]:
                        s_["amount"] -= 1

    def f_failed(e):
        e["code"], e["module"] = 3, "staking"

    forge("executed_action_nonce", "exec", f_nonce, "V2-V4")
    forge("unauthorized_accepted", "forbidden", f_code, "V2:")
    forge("quota_accounting", "withdrawn", f_amount, "V2-V4")
    forge("over_quota_accepted", "wforbidden", f_code, "V3:")
    forge("failed_tx_changed_state", "withdrawn", f_failed, "V4/C08")
    ctx.coverage.update(vault=st, vault_traces_valid=nv, vault_deviations=dev, vault_selftests=tests)


def nodelife_check(ctx, lines):
    """TraceNodeLife.tla (epochs, life cycle of node records) on recorded scenarios.  Behaviour outside the listed properties:
    deviations are printed as SPEC-DEVIATION and kept in the evidence notes; they do not change the exit code."""
    rej, nv, nev = validate(ctx, lines, "TraceNodeLife", "tracenodelife.cfg")
    for i, seg in enumerate(rej):
        line = "SPEC-DEVIATION node life cycle (outside the listed properties) %s: %s at %s" % (
            json.dumps(seg["events"][0])[:120], seg["why"], seg["failing_event"][:200])
        if i < 3:
            print(line)
            ctx.notes.append(line[:600])
    # vacuity guard and self-tests on one segment in which a record is removed
    removed, sample, seg, prev, epoch, pepoch = 0, None, [], None, 0, 0
    for ln in lines:
        if '"ev":"begin_chain"' in ln:
            seg, prev = [], None
        seg.append(ln)
        if '"ev":"reg"' in ln:
            ids = {n["id"] for n in json.loads(ln)["reg"]["nodes"]}
            if prev is not None and prev - ids:
                removed += 1
                if sample is None:
                    sample = list(seg)
            prev = ids
    tests = {}
    if sample:
        evs = [json.loads(x) for x in sample]
        regs = [i for i, e in enumerate(evs) if e["ev"] == "reg"]
        last, before = regs[-1], regs[-2]
        gone = [n for n in evs[before]["reg"]["nodes"] if n["id"] not in {m["id"] for m in evs[last]["reg"]["nodes"]}][0]

        def run(forged, want, name):
            r, _, _ = validate(ctx, [json.dumps(e) + "\n" for e in forged], "TraceNodeLife", "tracenodelife.cfg")
            why = r[0]["why"] if r else None
            if not why or want not in why:
                raise vlib.Infra("node life-cycle self-test %s: forged record %s" % (name, "accepted" if not why else "rejected by " + why))
            tests[name] = why[-100:]
        import copy
        f1 = copy.deepcopy(evs)            # the record stays although it is due
        f1[last]["reg"]["nodes"].append(gone)
        run(f1, "N2:", "due_record_survives")
        f2 = copy.deepcopy(evs[:before + 1])  # the record disappears one block early
        f2[before]["reg"]["nodes"] = [n for n in f2[before]["reg"]["nodes"] if n["id"] != gone["id"]]
        run(f2, "N1:", "removed_early")
        f3 = copy.deepcopy(evs)
        for e in f3:
            if e["ev"] == "begin" and e["h"] == f3[last]["h"]:
                e["epoch"] += 1
        run(f3, "E", "epoch_jump")
    ctx.log("node life cycle: %d valid, %d rejected, %d blocks with a removed record; self-tests %s" % (nv, len(rej), removed, sorted(tests)))
    if removed < 1:
        ctx.notes.append("node life cycle: no record was removed in these scenarios (clauses N1/N2 not exercised)")
    ctx.coverage.update(nodelife_traces_valid=nv, nodelife_deviations=len(rej), nodelife_removals=removed, nodelife_selftests=tests)
