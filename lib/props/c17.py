"""C17 - registry records change only with authority; keys stay unique.

1. design: Registry.tla transcribes node registration's admission check and key-index update.  TLC checks K1/K2 for the
   repaired update order ("remove_then_insert") over all histories of two nodes and seven interchangeable keys, and - as a
   demonstration that the rule is not vacuous - finds the counterexample for the order of the pinned tree ("code_at_pin");
2. replay: one behaviour per distinct (pre-state, operation) pair - registrations, updates that rotate or exchange the node's
   own P2P/VRF/TLS keys, removals - is executed by the REAL registry application (RegisterNode transactions through
   Application.ExecuteTx on a mock application state, removals through state.RemoveNode) and NodeBySubKey is compared with the
   model for every key of the universe;
3. trace validation: on real multiplexers (scenario driver with key rotations, lapsing nodes, wrong transaction signers,
   missing descriptor signatures, deregistration of entities that own nodes) TLC evaluates K1-K5 and A1 on the registry
   and staking state recorded after every block (TraceRegistry.tla).
"""
import json

import vlib
from props import cons_common as cc


def run(ctx):
    q = ctx.quick()
    ctx.assumptions += [
        "consensus keys are not rotated (the code forbids it); node identity keys are fixed",
        "runtimes are not registered in the scenarios: runtime ownership (K3 for runtimes, runtime claims) is not exercised",
    ]
    if ctx.replay:
        raise vlib.Infra("re-run the tier with the same VERIF_SEED to reproduce")
    d = vlib.copy_specs(ctx, "consensus")
    res = vlib.run_tlc(ctx, d, "MCRegistry", "design_registry_remove_then_insert.cfg", timeout=1200)
    vlib.tlc_must_pass(ctx, res, "design run Registry")
    bug = vlib.run_tlc(ctx, d, "MCRegistry", "design_registry_code_at_pin.cfg", timeout=600)
    if bug.violated != "K2":
        raise vlib.Infra("anti-vacuity: the pinned update order should violate K2 in the model, got %s %s" % (bug.violated, bug.error))
    ctx.coverage.update(states=res.distinct, transitions=res.generated, exhaustive=True, model_counterexample_for_pinned_order="K2")
    ctx.log("design: %d states; pinned order refuted in the model (%s)" % (res.distinct, bug.violated))
    d = vlib.copy_specs(ctx, "consensus")
    out = ctx.path("registry.json")
    vh = vlib.popen_vh(["registry-replay", "-in", "-", "-out", out])
    g = vlib.run_tlc(ctx, d, "MCRegistry", "gen_registry.cfg" if q else "gen_registry_thorough.cfg", timeout=3000, sink=vh.stdin)
    vh.stdin.close()
    if vh.wait() != 0:
        raise vlib.Infra("registry-replay failed")
    vlib.tlc_must_pass(ctx, g, "generation")
    s = json.load(open(out))
    if s["behaviours"] != g.emitted or not g.emitted:
        raise vlib.Infra("emitted %d, replayed %d" % (g.emitted, s["behaviours"]))
    ctx.log("replay: %d behaviours, %d ops, mismatches %s" % (s["behaviours"], s["ops"], s["classes"]))
    seen = set()
    for m in s["mismatches"] or []:
        if m["class"] in seen:
            continue
        seen.add(m["class"])
        vlib.report(ctx, "real registry differs from the model after %s: %s" % (json.dumps(m["ops"])[:300], m["msg"][:300]),
                    m, {"class": m["class"].split(":")[0], "own_key_exchange": m["own_key_exchange"]})
    seeds = [ctx.seed * 1000 + 700 + i for i in range(6 if q else 160)]
    lines, sums = cc.run_scenarios(ctx, seeds, 150 if q else 400)
    l2, s2 = cc.run_scenarios(ctx, [x + 300 for x in seeds[:max(2, len(seeds) // 3)]], 150 if q else 400, extra=cc.VRF)
    lines += l2
    sums += s2
    rej, nv, nev = cc.validate(ctx, lines, "TraceRegistry", "traceregistry.cfg")
    for seg in rej:
        vlib.report(ctx, "registry state breaks the rule: %s at %s" % (seg["why"], seg["failing_event"][:700]),
                    {"begin": seg["events"][0], "tail": seg["events"][-2:]}, {"class": "trace"})
    cc.nodelife_check(ctx, lines)
    t = cc.totals(sums)["tx_kinds"]
    unauth = sum(v for k, v in t.items() if k.endswith((":wrongsigner", ":missingsig", ":hasnodes")))
    rot = sum(1 for ln in lines if '"kind":"regnode"' in ln and '"rotate":"' in ln and '"rotate":""' not in ln)
    if unauth < 5 or rot < 5:
        raise vlib.Infra("vacuous run: %d unauthorised registry transactions, %d key rotations" % (unauth, rot))
    # self-test: drop one index entry from a recorded registry state
    seg0, done = [], False
    for ln in lines:
        if '"ev":"begin_chain"' in ln and seg0:
            break
        e = json.loads(ln)
        if e.get("ev") == "reg" and not done and e["reg"]["nodes"]:
            e["reg"]["nodes"][0]["found"]["p2p"] = "none"
            done = True
        seg0.append(json.dumps(e) + "\n")
    rej2, _, _ = cc.validate(ctx, seg0, "TraceRegistry", "traceregistry.cfg")
    if not rej2:
        raise vlib.Infra("self-test failed: missing index entry accepted")
    ctx.log("traces: %d valid, %d rejected; %d unauthorised txs, %d rotations" % (nv, len(rej), unauth, rot))
    ctx.coverage.update(replayed_behaviours=s["behaviours"], replay_ops=s["ops"], own_key_exchanges=s["last_op_exchanges_own_keys"],
                        traces_validated_against_impl=nv, trace_events=nev, unauthorised_registry_txs=unauth, key_rotations=rot,
                        selftest_missing_index_rejected=True, samples=[json.loads(s["sample"]) if isinstance(s["sample"], str) else s["sample"]])
