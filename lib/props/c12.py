"""C12 (+ the restore part of C07) - checkpoints restore to exactly the checkpointed state.

1. design (TLC, specs/mkvs/Checkpoint.tla):
   a. the two chunkers transcribed from chunk.go / subtree.go: for every tree over the key universe, every chunk size 1..total+1
      and thread counts 0..4 the chunk list covers the whole tree and every chunk is a proof the verifier accepts;
   b. the restore machine (restorer with one caller possibly in flight, multipart state of badger and pathbadger incl. what
      survives an abort or a crash at every H1 point) against the declarative rule, for all schedules within the bound.
      The model contains known breaches of the rule ("excuses"); each excuse is shown necessary by a run without it
      (TLC must produce the counterexample) - whether the real code has the breach is decided below, never by the model.
2. generation -> `vh ckpt-replay`: one scenario per distinct (abstract state, last operation) pair, plus one per
   (tree, size, threads, backend) for checkpoint creation, plus seeded trees up to thousands of keys.  The harness creates the
   checkpoint (twice, and on the other backend: determinism), restores it into an empty database following the schedule
   (permutations, duplicates, concurrent and gated callers, corrupted chunk variants, AbortRestore + AbortMultipartInsert,
   child processes dying at the multipart hook points), observes GetLatestVersion / GetRootsForVersion / HasRoot / a full
   read-back, and records an ndjson trace.  Differences from the model's predictions are MODEL-DRIFT (counted only).
3. verdict: TLC evaluates ONLY the rule on the recorded outcomes (specs/mkvs/TraceCheckpoint.tla) and prints, per scenario,
   every clause broken together with the event that broke it.  Each distinct (backend, kind, shape) goes through
   vlib.report(): KNOWN-FINDING for the shapes listed in known_findings.json, VIOLATION for anything else.
4. self-test: one recorded event is forged (a finalized root that does not read back / a corrupt chunk accepted); TLC in
   strict mode must reject the trace.
"""
import collections
import json
import os

import vlib

EXCUSES = {
    "retry-same-version": "ExceptRetry",
    "visible-after-abort": "ExceptVisible",
    "done-after-abort": "ExceptDone",
    "crash-after-finalize-meta": "ExceptCrashFin",
}


# ------------------------------------------------------------------------------------------------------------------
# verdicts

def shape_of(evs, k, kind):
    """Name the shape of the history up to event k (index into the scenario's events, 0 = begin) for clause `kind`.
    Only facts the caller itself knows are used: which restores it started, aborted, saw crash, which calls were gated."""
    begin = evs[0]
    status, retry = {}, {}          # per version: how its last restore ended / whether the current one follows an interrupted one
    cur, gated, gate_aborted, done_early, de = 0, False, False, False, {}
    fin_by_crash_at = {}
    for e in evs[1:k + 1]:
        ev = e["ev"]
        if ev == "start":
            v = e["v"]
            if e.get("mperr") == "":
                retry[v] = status.get(v) in ("aborted", "crashed")
                status[v] = "active"
                cur = v
        elif ev == "abort":
            if cur:
                status[cur] = "aborted"
            cur = 0
        elif ev == "crash":
            v = e.get("v") or cur
            if e.get("op") == "finalize" and e.get("latest") == v:
                status[v] = "finalized"
                fin_by_crash_at[v] = e.get("at")
            elif v:
                status[v] = "crashed"
            cur = 0
        elif ev == "finalize":
            if e.get("err") == "":
                status[e["v"]] = "finalized"
                cur = 0
        elif ev == "gate":
            gated, gate_aborted = True, False
        elif ev in ("abortrs",) or (ev == "bad" and e.get("res") == "prooffail"):
            if gated:
                gate_aborted = True
        elif ev == "release":
            if e.get("res") == "done" and gate_aborted:
                done_early, de[cur] = True, True
            gated = False
        elif ev == "par":
            rr = e.get("res") or []
            if "done" in rr and any(r in ("prooffail", "norestore") for r in rr):
                done_early, de[cur] = True, True      # free-running callers: one failed proof verification (restorer aborted), another then reported done
    e = evs[k]
    fin = [v for v, s in status.items() if s == "finalized"]
    if kind == "valid-chunk-rejected":
        if begin.get("depth", 0) > 129:          # the harness counts the root as level 1, syncer/proof.go as depth 0
            return "tree-depth-over-128"
        return "created-chunk-does-not-verify" if k == 0 else "other"
    if kind == "done-early":
        return "done-after-concurrent-abort" if done_early else "other"
    if kind in ("finalized-unreadable", "finalized-missing", "finalized-wrong", "finalize-failed"):
        seen_ok = set(e.get("exact", []))
        broken = [x for x in fin if x not in seen_ok]
        v = broken[0] if broken else (fin[0] if fin else (e.get("v") or cur))
        if de.get(v):
            return "done-after-concurrent-abort"
        # several features may be present; the one that explains the breach on this backend names the shape
        # (a same-version retry is harmless on badger, a crash inside Finalize is harmless on pathbadger)
        feats = []
        if retry.get(v):
            feats.append("restore-after-aborted-restore-same-version")
        if fin_by_crash_at.get(v):
            feats.append("crash-at-" + fin_by_crash_at[v])
        if begin["backend"] == "badger":
            feats.reverse()
        if feats:
            return feats[0]
        if begin.get("depth", 0) > 129:
            return "tree-depth-over-128"
        return "plain-restore"
    if kind == "readable-wrong":
        vs = e.get("wrong") or []
        if vs and all(retry.get(v) for v in vs):
            return "restore-after-aborted-restore-same-version"
        return "other"
    if kind == "visible-unreadable":
        act = e.get("inprog", 0)
        vs = [v for v in set(e.get("has", [])) | set(e.get("listed", [])) if v not in e.get("exact", []) and v not in fin and v != act]
        kinds = {status.get(v, "never-started") for v in vs}
        if not kinds:
            return "other"
        # what is left of such a root: the documented residue on badger is the roots metadata only (nodes and root key are
        # deleted, reads say 'root not found'); anything more than that (e.g. node keys that survived the clean-up) is another shape
        if begin["backend"] == "badger":
            reads = dict(m[5:].split(": ", 1) for m in (e.get("msgs") or "").split("; ") if m.startswith("read@") and ": " in m)
            if any(str(v) in reads and "root not found" not in reads[str(v)] for v in vs):
                return "interrupted-restore-leaves-more-than-the-roots-metadata"
        if kinds == {"aborted"}:
            return "after-aborted-restore"
        if kinds == {"crashed"}:
            return "after-crashed-restore"
        if kinds <= {"aborted", "crashed"}:
            return "after-interrupted-restore"
        return "other"
    return "other"


def split_batches(lines, batch_events=120000):
    batches, cur = [], []
    for ln in lines:
        cur.append(ln if ln.endswith("\n") else ln + "\n")
        if '"ev":"end"' in ln and len(cur) >= batch_events:
            batches.append(cur)
            cur = []
    if cur:
        batches.append(cur)
    return batches


def tlc_verdicts(ctx, lines, strict=False):
    """Run TraceCheckpoint over the trace (split at scenario boundaries) and collect the per-scenario verdicts it prints:
    {id: {"bad": first clause, "trips": [[offset of the event within the scenario (0 = begin), clause], ...]}}.
    strict: invariant bad = "none" is on; returns (verdicts, rejected?)."""
    verdicts, rejected = {}, False
    for b in split_batches(lines):
        d = vlib.copy_specs(ctx, "mkvs")
        with open(os.path.join(d, "trace.ndjson"), "w") as f:
            f.writelines(b)
        begin_line = {}
        for n, ln in enumerate(b, 1):
            if '"ev":"begin"' in ln:
                begin_line[json.loads(ln)["id"]] = n
        out = []
        res = vlib.run_tlc(ctx, d, "TraceCheckpoint", "tracecheckpoint.cfg" if strict else "tracecheckpoint_verdicts.cfg",
                           workers=1, timeout=1800, sink=out.append, heap="12g")
        if strict and res.violated in ("RuleHolds", "postcondition") and not res.error:
            rejected = True      # (TLC reports the unconsumed remainder of a rejected trace as a failed postcondition as well)
        elif not res.ok():
            raise vlib.Infra("trace validation: TLC rc=%s violated=%s error=%s\n%s" % (res.rc, res.violated, res.error, "\n".join(res.tail[-30:])))
        for o in out:
            v = json.loads(o)
            v["trips"] = [[t[0] - begin_line[v["id"]], t[1]] for t in v["trips"]]
            verdicts[v["id"]] = v
    return verdicts, rejected


def replay_vh(ctx, name, cfg, args, tlc_timeout=3000):
    """TLC generation with `cfg` (or none) streamed into vh ckpt-replay; returns (TlcResult|None, summary, trace lines, scenarios)."""
    out, trace, scen = ctx.path(name + "-sum.json"), ctx.path(name + "-trace.ndjson"), ctx.path(name + "-scen.ndjson")
    scratch = ctx.path(name + "-scratch")
    os.makedirs(scratch, exist_ok=True)
    base = ["ckpt-replay", "-out", out, "-trace", trace, "-scen", scen, "-scratch", scratch]
    g = None
    if cfg:
        d = vlib.copy_specs(ctx, "mkvs")
        vh = vlib.popen_vh(base + ["-in", "-"] + args)
        g = vlib.run_tlc(ctx, d, "MCCheckpoint", cfg, timeout=tlc_timeout, sink=vh.stdin)
        vh.stdin.close()
        if vh.wait() != 0:
            raise vlib.Infra("ckpt-replay failed (%s)" % name)
        vlib.tlc_must_pass(ctx, g, "generation " + cfg)
    else:
        vlib.run_vh(ctx, base + ["-in", "none"] + args, timeout=3000)
    s = json.load(open(out))
    if cfg and (s["emitted"] != g.emitted or not g.emitted):
        raise vlib.Infra("%s: TLC emitted %d scenarios, harness saw %d" % (cfg, g.emitted, s["emitted"]))
    if s["infra"]:
        if len(s["infra"]) > max(3, s["scenarios"] // 50):
            raise vlib.Infra("%s: scenarios failed to run: %s" % (name, s["infra"][:3]))
        ctx.notes.append("%s: scenarios not run: %s" % (name, s["infra"][:3]))
    if not s["scenarios"]:
        raise vlib.Infra("%s: no scenario executed" % name)
    lines = open(trace).readlines()
    scens = {}
    for ln in open(scen):
        x = json.loads(ln)
        scens[x["id"]] = x
    ctx.log("%s: %d scenarios (%s emitted), %d events, kinds %s, model chunk lists %s, drift %s" % (
        name, s["scenarios"], s["emitted"], s["events"], s["kinds"], s["model_chunks"], sum(s["drift"].values())))
    return g, s, lines, scens


def segments(lines):
    segs, cur = {}, None
    for ln in lines:
        e = json.loads(ln)
        if e["ev"] == "begin":
            cur = []
            segs[e["id"]] = cur
        cur.append(e)
    return segs


def run(ctx):
    q = ctx.quick()
    ctx.assumptions += [
        "perfect hash: chunk digests and node hashes are SHA-512/256 (collisions assumed absent); trusted: TLC, the JSON bridge",
        "model: keys <= 5 bytes over a 6-key universe (empty key, prefix chain of 4-5, keys differing in the first bit), values "
        "<= 9 bytes, exact proof-builder byte sizes; chunk sizes 1..200 bytes; threads 0..4; <= 4 chunks per schedule; restore "
        "versions {1,2}; at most one abort, one crash, one corrupted chunk and one forged manifest per model schedule",
        "pathbadger node keys (version, index) are abstracted to node identity in the model; index reuse between two restores "
        "at the same version is therefore not predicted (counted as MODEL-DRIFT, judged by the rule on the real observations)",
        "concurrency: free-running goroutines (unpredicted interleavings, judged by the rule) and one caller held inside the "
        "chunk commit at the first H1 point while other callers act; not instruction-level interleavings",
        "crash = process death at an H1 hook point of StartMultipartInsert / chunk commit / AbortMultipartInsert / Finalize "
        "(not power loss; NoFsync as the consensus layer configures it); the restorer is volatile and restarted by the caller",
        "absent-or-exact is evaluated when no multipart insert is open (after an abort, a crash + reopen, a finalization); while "
        "a restore is running a partially present root is expected and only wrong-but-readable contents are a breach",
        "a forged manifest (digest of a chunk that does not belong to the root) stands for 'altered proof'; altered bytes under "
        "the genuine manifest stand for 'altered bytes / digest'",
        "seeded trees: prefix chains and bit combs are kept <= 120 levels deep except the dedicated depth scenarios",
    ]
    if ctx.replay:
        rp = json.load(open(ctx.replay))["replay"]
        sc = rp["scenario"]
        sf = ctx.path("replay-scen.ndjson")
        with open(sf, "w") as f:
            f.write(json.dumps(sc) + "\n")
        out, trace = ctx.path("replay-sum.json"), ctx.path("replay-trace.ndjson")
        os.makedirs(ctx.path("replay-scratch"), exist_ok=True)
        vlib.run_vh(ctx, ["ckpt-replay", "-in", sf, "-out", out, "-trace", trace, "-scratch", ctx.path("replay-scratch")])
        lines = open(trace).readlines()
        seen = set()
        nval, counts = judge_lines(ctx, "replay", lines, {1: sc}, seen)
        ctx.log("replay: %s" % dict(counts))
        ctx.coverage.update(states=1, transitions=1, traces_validated_against_impl=nval, samples=[sc])
        return

    # ---- 1. design
    d = vlib.copy_specs(ctx, "mkvs")
    r1 = vlib.run_tlc(ctx, d, "MCCheckpoint", "design_ckpt_create_quick.cfg" if q else "design_ckpt_create_thorough.cfg", timeout=3000)
    vlib.tlc_must_pass(ctx, r1, "chunker design run")
    ctx.log("design/chunkers: %d (tree, size, threads) combinations, creation clauses hold" % (r1.distinct // 2))
    r2 = vlib.run_tlc(ctx, d, "MCCheckpoint", "design_ckpt_sched_quick.cfg" if q else "design_ckpt_sched_thorough.cfg", timeout=3000,
                      heap="24g")
    vlib.tlc_must_pass(ctx, r2, "restore design run")
    ctx.log("design/restore: %d generated, %d distinct, rule holds up to the named excuses" % (r2.generated, r2.distinct))
    # every excuse is needed: without it TLC finds the counterexample (anti-vacuity of the model's defect shapes)
    cex = {}
    base = open(os.path.join(d, "design_ckpt_cex.cfg")).read()
    for name, const in EXCUSES.items():
        with open(os.path.join(d, "cex.cfg"), "w") as f:
            txt = base.replace("Excuse <- ExceptRetry", "Excuse <- " + const)
            if name == "done-after-abort":
                # the restorer of the tree before fix 1bc4d41 (transcribed under RestorerFixed = FALSE) breaks the rule; the design
                # runs above use the fixed restorer and hold without this excuse
                txt = txt.replace("RestorerFixed = TRUE", "RestorerFixed = FALSE")
            f.write(txt)
        r = vlib.run_tlc(ctx, d, "MCCheckpoint", "cex.cfg", timeout=600)
        if r.error or r.violated is None:
            raise vlib.Infra("model counterexample for '%s' not found (rc=%s error=%s): the model no longer contains the shape" % (name, r.rc, r.error))
        cex[name] = {"violates": r.violated, "states": r.generated}
    r = vlib.run_tlc(ctx, d, "MCCheckpoint", "design_ckpt_deep.cfg", timeout=600)
    if r.violated != "RuleCreate":
        raise vlib.Infra("depth-limit counterexample not found (violated=%s error=%s)" % (r.violated, r.error))
    cex["deep"] = {"violates": r.violated, "states": r.generated}
    ctx.log("model counterexamples (each is decided on the real code below): %s" % {k: v["violates"] for k, v in cex.items()})
    ctx.coverage.update(states=r1.distinct + r2.distinct, transitions=r1.generated + r2.generated, exhaustive=True,
                        design_chunker_combinations=r1.distinct // 2, design_restore_states=r2.distinct, model_counterexamples=cex)

    # ---- 2. generation -> real code
    runs = []
    runs.append(("create",) + replay_vh(ctx, "create", "gen_ckpt_create_quick.cfg" if q else "gen_ckpt_create_thorough.cfg",
                                        ["-every", "2" if q else "1"]))
    runs.append(("sched2",) + replay_vh(ctx, "sched2", "gen_ckpt_sched2.cfg",
                                        ["-every", "2" if q else "1", "-everycrash", "80" if q else "6"]))
    runs.append(("sched3",) + replay_vh(ctx, "sched3", "gen_ckpt_sched3_quick.cfg" if q else "gen_ckpt_sched3.cfg",
                                        ["-every", "5" if q else "1", "-everycrash", "200" if q else "40"]))
    runs.append(("big",) + replay_vh(ctx, "big", None,
                                     ["-big", "200" if q else "4000", "-bigkeys", "2000" if q else "5000", "-seed", str(ctx.seed)]))

    # ---- 3. verdicts (TLC, rule only)
    seen, nval, counts = set(), 0, collections.Counter()
    for name, g, s, lines, scens in runs:
        nv, c = judge_lines(ctx, name, lines, scens, seen)
        nval += nv
        counts.update(c)
    ctx.log("rule verdicts: %d scenarios validated by TLC; broken clauses by (backend, kind, shape): %s" % (
        nval, {"/".join(k): v for k, v in sorted(counts.items())}))

    # ---- drift
    drift = collections.Counter()
    mc = collections.Counter()
    for name, g, s, lines, scens in runs:
        drift.update(s["drift"])
        mc.update(s["model_chunks"])
        for smp in (s.get("drift_samples") or [])[:3]:
            line = "MODEL-DRIFT property=C12 %s" % smp
            if len(ctx.drift) < 12:
                ctx.drift.append(line)
                print(line)
    if mc.get("differ"):
        line = "MODEL-DRIFT property=C12 real chunk list differs from the transcribed chunkers in %d of %d predicted checkpoints" % (
            mc["differ"], mc["differ"] + mc.get("match", 0))
        ctx.drift.append(line)
        print(line)

    # ---- 4. self-test: forge one event of a clean scenario; strict TLC must reject, and must accept the unforged scenario
    name, g, s, lines, scens = runs[0]
    segs = segments(lines)
    clean = None
    for sid, evs in segs.items():
        if evs[-2]["ev"] == "finalize" and evs[-2].get("exact") and evs[0]["nchunks"] >= 2:
            clean = evs
            break
    if clean is None:
        raise vlib.Infra("self-test: no clean finalized scenario found")
    good = [json.dumps(e, separators=(",", ":")) + "\n" for e in clean]
    _, rej = tlc_verdicts(ctx, good, strict=True)
    if rej:
        raise vlib.Infra("self-test: strict trace validation rejects a clean scenario")
    selftests = {}
    forged = json.loads(json.dumps(clean))
    forged[-2]["exact"], forged[-2]["unreadable"] = [], forged[-2]["has"]          # finalized root does not read back
    _, rej = tlc_verdicts(ctx, [json.dumps(e, separators=(",", ":")) + "\n" for e in forged], strict=True)
    selftests["forged_unreadable_final_rejected"] = rej
    forged = json.loads(json.dumps(clean))
    k = next(i for i, e in enumerate(forged) if e["ev"] == "chunk")
    forged[k]["ev"], forged[k]["genuine"], forged[k]["same"], forged[k]["kind"], forged[k]["variant"] = "bad", False, False, "digest", "flip"   # corrupt chunk accepted
    _, rej2 = tlc_verdicts(ctx, [json.dumps(e, separators=(",", ":")) + "\n" for e in forged], strict=True)
    selftests["forged_corrupt_accepted_rejected"] = rej2
    forged = json.loads(json.dumps(clean))
    forged[0]["det"] = False
    _, rej3 = tlc_verdicts(ctx, [json.dumps(e, separators=(",", ":")) + "\n" for e in forged], strict=True)
    selftests["forged_nondeterminism_rejected"] = rej3
    if not (rej and rej2 and rej3):
        raise vlib.Infra("self-test failed: forged trace accepted by TraceCheckpoint: %s" % selftests)

    # ---- 5. coverage
    def merged(key):
        c = collections.Counter()
        for _, g, s, _, _ in runs:
            c.update(s.get(key) or {})
        return dict(c)
    total = sum(s["scenarios"] for _, g, s, _, _ in runs)
    if total < (500 if q else 5000):
        raise vlib.Infra("too few scenarios executed (%d)" % total)
    crash_points = merged("crash_points")
    want_points = {"badger.commit.mplog_flushed", "badger.commit.nodes_flushed", "badger.finalize.batch_flushed", "badger.finalize.meta_committed",
                   "badger.cleanmp.batch_flushed", "path.startmp.meta_committed", "path.cleanmp.batch_flushed", "path.commit.seqno_committed",
                   "path.commit.meta_flushed", "path.finalize.copy_flushed", "path.finalize.meta_committed"}
    hit = {k.split("@")[1].split(":")[0] for k, v in crash_points.items() if k.endswith("reached=true")}
    if want_points - hit and not q:
        raise vlib.Infra("multipart hook points never crashed at (hook removed or renamed?): %s" % sorted(want_points - hit))
    ctx.coverage.update(
        traces_validated_against_impl=nval,
        scenarios=total,
        gen_states=sum(g.distinct for _, g, _, _, _ in runs if g), gen_emitted=sum(g.emitted for _, g, _, _, _ in runs if g),
        events=sum(s["events"] for _, g, s, _, _ in runs),
        by_schedule_kind=merged("kinds"), by_backend=merged("backends"), by_threads=merged("threads"),
        by_corruption_variant=merged("variants"), by_result=merged("results"), crash_points=crash_points,
        largest_tree=max(s["largest_tree"] for _, g, s, _, _ in runs), most_chunks=max(s["most_chunks"] for _, g, s, _, _ in runs),
        deepest_tree=max(s["deepest_tree"] for _, g, s, _, _ in runs),
        model_chunk_lists=dict(mc), model_drift=dict(drift),
        rule_breaches={"/".join(k): v for k, v in sorted(counts.items())},
        selftest=selftests,
        samples=runs[1][2]["samples"][:2])


def judge_lines(ctx, name, lines, scens, seen):
    """TLC verdicts for one trace file -> reports.  Returns (scenarios validated, Counter of (backend, kind, shape))."""
    verdicts, _ = tlc_verdicts(ctx, lines)
    segs = segments(lines)
    if set(verdicts) != set(segs):
        raise vlib.Infra("%s: %d scenarios recorded, %d verdicts printed" % (name, len(segs), len(verdicts)))
    counts = collections.Counter()
    for sid, v in verdicts.items():
        if not v["trips"]:
            continue
        evs = segs[sid]
        backend = evs[0]["backend"]
        for k, kind in v["trips"]:
            if not (0 <= k < len(evs)):
                raise vlib.Infra("%s: cannot locate event %d of scenario %d" % (name, k, sid))
            shape = shape_of(evs, k, kind)
            key = (backend, kind, shape)
            counts[key] += 1
            if key in seen:
                continue
            seen.add(key)
            sc = scens.get(sid, {})
            what = "%s (%s) on %s at step %d of a '%s' scenario: %s" % (
                kind, shape, backend, k, evs[0].get("kind"), json.dumps({a: b for a, b in evs[k].items() if a in (
                    "ev", "v", "i", "res", "err", "at", "op", "latest", "has", "listed", "exact", "unreadable", "wrong", "msgs", "why", "depth")})[:600])
            vlib.report(ctx, what, {"scenario": sc, "events": evs[:k + 1], "trips": v["trips"]},
                        {"backend": backend, "kind": kind, "shape": shape})
    return len(verdicts), counts
