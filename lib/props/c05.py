"""C05 - token supply is conserved and share bookkeeping stays consistent.

Ledger.tla states the rule over the staking ledger record (I1 conservation, I2 share sums, A1 supply changes only by burned
amounts); TraceLedger.tla evaluates it on the REAL state recorded after BeginBlock, after every DeliverTx and after EndBlock of
seeded scenarios executed on real multiplexers (all staking methods, valid and invalid in every single respect, node
registrations, epoch transitions with rewards / fee disbursement / debonding, evidence-driven slashing, varying votes).
"""
import vlib
from props import cons_common as cc


def mutate(events):
    for i, e in enumerate(events):
        if e.get("ev") == "tx" and e.get("code") == 0 and e["spec"]["kind"] == "transfer":
            e["state"]["acc"]["U0"]["g"] += 1     # one base unit appears from nowhere
            return i, events
    return None, events


def run(ctx):
    ctx.assumptions += [
        "amounts stay below 2^31 (TLC integers): total supply about 15 000 base units; magnitudes near 2^64 / 2^128 are not covered",
        "the ledger is read through the exported staking ImmutableState readers on the in-flight block state "
        "(ApplicationState.NewContext), no hook",
        "inside a block the stored LastBlockFees figure is stale by design (rewritten at EndBlock); the rule accounts for that",
    ]
    if ctx.replay:
        raise vlib.Infra("re-run the tier with the same VERIF_SEED to reproduce (replay files carry the seed and event index)")
    d = vlib.copy_specs(ctx, "consensus")
    res = vlib.run_tlc(ctx, d, "MCLedger", "design_ledger_quick.cfg" if ctx.quick() else "design_ledger.cfg", timeout=3000)
    vlib.tlc_must_pass(ctx, res, "design run Ledger")
    ctx.coverage.update(states=res.distinct, transitions=res.generated)
    lines, _ = cc.ledger_check(ctx, "C05", "traceledger_c05.cfg", mutate, "conservation")
    # governance: the deposit pool against the open proposals (a C05 clause), life cycle and tally (beyond the listed properties)
    cc.governance_check(ctx, lines)
