"""C16 - untrusted bytes are decoded or rejected, never crash the node (decided on GENERATED inputs only).

MkvsWire.tla transcribes the hand-written storage decoders (node / leaf / internal node / key) as a parser over byte
sequences and generates, from the grammar, every valid small encoding with every single mutation of its structure
(truncation at every position, every length field at actual-1 / actual+1 / maximum, every prefix byte replaced, trailing
bytes).  The harness feeds each case and a seeded random mutation neighbourhood to node.UnmarshalBinary, Key / Depth
decoding, proof verification (both versions), and the CBOR decoders of proofs, write logs, checkpoint metadata,
transactions and executor commitments, each under recover(), a 5 s deadline and an allocation bound; junk, malformed and
bit-flipped transactions are additionally delivered to live multiplexers (scenario driver).
Violation: a panic, hang or allocation blow-up.  Accept/reject differences from the transcription are drift.
"""
import json

import vlib
from props import cons_common as cc


def run(ctx):
    q = ctx.quick()
    ctx.assumptions += [
        "decides the property only on generated inputs (grammar-derived boundary cases + seeded mutation neighbourhoods); it does "
        "not replace coverage-guided fuzzing of the CBOR library, AVR/IAS parsing or the runtime-host protocol",
        "the other mutation harnesses (C04 proofs, C12 chunks, C13 write logs, C18 quotes, C19 provider responses) run under the same "
        "panic guard and report panics under their own property",
    ]
    if ctx.replay:
        raise vlib.Infra("replay files carry the exact bytes (hex) and entry point; feed them to the entry point to reproduce")
    d = vlib.copy_specs(ctx, "mkvs")
    out = ctx.path("wire.json")
    vh = vlib.popen_vh(["wire-replay", "-in", "-", "-out", out, "-seed", str(ctx.seed), "-mutants", "4" if q else "60"])
    g = vlib.run_tlc(ctx, d, "MCMkvsWire", "gen_wire.cfg", timeout=1200, sink=vh.stdin)
    vh.stdin.close()
    if vh.wait() != 0:
        raise vlib.Infra("wire-replay failed")
    vlib.tlc_must_pass(ctx, g, "case generation (incl. Sanity invariant)")
    s = json.load(open(out))
    if s["cases"] != g.emitted or not g.emitted:
        raise vlib.Infra("emitted %d, fed %d" % (g.emitted, s["cases"]))
    ctx.log("wire: %d cases, %d inputs, %d accepted, drift %d, panics %d, hangs %d, big allocations %d" % (
        s["cases"], s["inputs"], s["accepted"], s["drift"], s["panics"], s["slow"], s["big_alloc"]))
    for p in (s["problems"] or [])[:5]:
        vlib.report(ctx, "%s in %s on input %s" % (p["kind"], p["entry"], p["bytes"][:200]), p, {"kind": p["kind"], "entry": p["entry"]})
    for dsm in (s["drift_samples"] or [])[:3]:
        line = "MODEL-DRIFT property=C16 node.UnmarshalBinary accept=%s, transcription %s on %s" % (dsm["code"], dsm["model"], dsm["bytes"][:80])
        ctx.drift.append(line)
        print(line)
    # second family: structural sweeps (every truncation, length-field boundary patterns at every offset) of valid quotes,
    # collateral, attestation reports, descriptors, commitments and runtime-host protocol frames
    sw_out = ctx.path("sweep.json")
    vlib.run_vh(ctx, ["wire-sweep", "-out", sw_out] + (["-dense", "260", "-stride", "37"] if q else ["-dense", "1000000", "-stride", "1"]), timeout=3000)
    sw = json.load(open(sw_out))
    ctx.log("sweeps: %d targets, %d seed encodings, %d inputs, %d accepted, panics %d, hangs %d, big allocations %d" % (
        sw["targets"], sw["seeds"], sw["inputs"], sw["accepted"], sw["panics"], sw["slow"], sw["big_alloc"]))
    for p in (sw["problems"] or [])[:5]:
        vlib.report(ctx, "%s in %s on input %s (%s)" % (p["kind"], p["entry"], p["bytes"][:200], json.dumps(p.get("case"))), p,
                    {"kind": p["kind"], "entry": p["entry"]})
    ctx.coverage.update(sweep_targets=sw["targets"], sweep_seed_encodings=sw["seeds"], sweep_inputs=sw["inputs"], sweep_by_entry=sw["by_entry"])
    # third family: the runtime host protocol connection facing a misbehaving runtime (HostProto.tla)
    hd = vlib.copy_specs(ctx, "hostproto")
    # proofs nested up to and beyond the verifier's depth limit, with correct hashes, through every child slot (in version 1
    # proofs also the leaf slot, which the decoder does not constrain to hold a leaf)
    pd = json.loads(vlib.run_vh(ctx, ["proof-depth", "-deep", "200000" if q else "1500000"], timeout=600))
    for p in (pd["problems"] or [])[:5]:
        if p["kind"] == "valid-proof-rejected":
            line = "MODEL-DRIFT property=C16 proof within the documented depth limit rejected: %s" % json.dumps(p)[:300]
            ctx.drift.append(line)
            print(line)
            continue
        vlib.report(ctx, "proof verifier: %s (%s)" % (p["kind"], json.dumps(p)[:400]), p, {"kind": p["kind"], "entry": "syncer.VerifyProof"})
    ctx.coverage.update(proof_depth_cases=pd["cases"], proof_depth_accepted=pd["accepted"], proof_depth_rejected=pd["rejected"])
    hr = vlib.run_tlc(ctx, hd, "MCHostProto", "design_hostproto.cfg", timeout=1200)
    vlib.tlc_must_pass(ctx, hr, "design run HostProto (NeverHangs, OneAnswer, CloseReturns under fairness)")
    hn = vlib.run_tlc(ctx, hd, "MCHostProto", "design_hostproto_nodelete.cfg", timeout=600)
    if hn.violated != "NeverHangs":
        raise vlib.Infra("HostProto.tla is vacuous: without the deletion on lookup the hang is not found (violated=%s error=%s)" % (hn.violated, hn.error))
    hp_out = ctx.path("hostproto.json")
    hvh = vlib.popen_vh(["proto-replay", "-in", "-", "-out", hp_out, "-every", "8" if q else "1", "-random", "300" if q else "5000", "-seed", str(ctx.seed)])
    hg = vlib.run_tlc(ctx, hd, "MCHostProto", "gen_hostproto_quick.cfg", timeout=1200, sink=hvh.stdin)
    hvh.stdin.close()
    if hvh.wait() != 0:
        raise vlib.Infra("proto-replay failed")
    vlib.tlc_must_pass(ctx, hg, "script generation HostProto")
    hs = json.load(open(hp_out))
    if hs["scripts"] != hg.emitted or not hg.emitted:
        raise vlib.Infra("HostProto: emitted %d scripts, harness saw %d" % (hg.emitted, hs["scripts"]))
    ctx.log("host protocol: design %d states; %d scripts emitted, %d replayed on the real connection, call outcomes %s, problems %s" % (
        hr.distinct, hs["scripts"], hs["replayed"], hs["call_outcomes"], hs["problem_kinds"]))
    for p in (hs["problems"] or [])[:5]:
        vlib.report(ctx, "runtime host protocol connection: %s after the script %s" % (p["problem"], json.dumps(p["script"])[:600]), p,
                    {"kind": p["problem"].split(":")[0], "entry": "protocol.Connection"})
    # ... and with request frames of the runtime (their handler goroutines answer through the same writer; Close must release them)
    hp2 = ctx.path("hostproto-req.json")
    hvh2 = vlib.popen_vh(["proto-replay", "-in", "-", "-out", hp2, "-every", "10" if q else "4", "-seed", str(ctx.seed + 7)])
    hg2 = vlib.run_tlc(ctx, hd, "MCHostProto", "gen_hostproto_req_quick.cfg" if q else "gen_hostproto_req_thorough.cfg", timeout=2400, sink=hvh2.stdin)
    hvh2.stdin.close()
    if hvh2.wait() != 0:
        raise vlib.Infra("proto-replay (requests) failed")
    vlib.tlc_must_pass(ctx, hg2, "script generation HostProto with peer requests")
    hs2 = json.load(open(hp2))
    if hs2["scripts"] != hg2.emitted or not hg2.emitted:
        raise vlib.Infra("HostProto (requests): emitted %d scripts, harness saw %d" % (hg2.emitted, hs2["scripts"]))
    ctx.log("host protocol with peer requests: %d scripts emitted, %d replayed, problems %s" % (hs2["scripts"], hs2["replayed"], hs2["problem_kinds"]))
    for p in (hs2["problems"] or [])[:5]:
        vlib.report(ctx, "runtime host protocol connection: %s after the script %s" % (p["problem"], json.dumps(p["script"])[:600]), p,
                    {"kind": p["problem"].split(":")[0], "entry": "protocol.Connection"})
    ctx.coverage.update(hostproto_design_states=hr.distinct, hostproto_scripts=hs["scripts"] + hs2["scripts"], hostproto_replayed=hs["replayed"] + hs2["replayed"],
                        hostproto_model_counterexample_without_delete=True)
    # live multiplexers: junk / malformed / bit-flipped transaction bytes through DeliverTx (every call under recover())
    # (-txsweep: every third block, every single structural mutation of the body of each of the block's well-formed transactions -
    # a map entry dropped, a value replaced by null / an empty map, array or byte string / 0 / 2^63 / text - correctly signed, at
    # the observer's mempool check and gas estimation; transactions of every kind the scenarios generate)
    lines, sums = cc.run_scenarios(ctx, [ctx.seed * 1000 + 900 + i for i in range(4 if q else 24)], 150 if q else 300,
                                   extra=["-txsweep", "-validators", "5", "-maxgroup", "3"], halt_ok=True)
    l2, s2 = cc.run_scenarios(ctx, [ctx.seed * 1000 + 950 + i for i in range(2 if q else 12)], 150 if q else 300, extra=["-txsweep", "-vault"], halt_ok=True)
    lines += l2
    sums += s2
    t = cc.totals(sums)
    hostile = sum(v for k, v in t["tx_kinds"].items() if k.endswith((":junk", ":malformed", ":badsig", ":wrongchain", ":wrongdomain", ":missingsig")))
    for sm in sums:
        for p in (sm.get("panics") or [])[:1]:
            vlib.report(ctx, "panic while delivering transactions to a live multiplexer (seed %d): %s" % (sm["seed"], p[:500]), {"seed": sm["seed"], "panic": p},
                        {"kind": "panic", "entry": "mux"})
    ctx.coverage.update(states=g.distinct, transitions=g.generated, traces_validated_against_impl=len(sums), cases=s["cases"], inputs=s["inputs"],
                        accepted=s["accepted"], drift=s["drift"], panics=s["panics"], hangs=s["slow"], big_allocations=s["big_alloc"],
                        by_entry=s["by_entry"], hostile_transactions_delivered=hostile, mutated_bodies_checked=sum(x.get("sweep_inputs", 0) for x in sums),
                        mutated_bodies_delivered=sum(v for k, v in t["tx_kinds"].items() if k.endswith(":mutbody")), exhaustive=False,
                        samples=[{"kind": c["kind"], "m": c["m"], "bytes": c["bytes"][:24]} for c in s["samples"]])
