"""C20 - runtime transaction pool equals the reference model TxPool.tla.

1. design run: TLC checks the reference model's own invariants (capacity, pass order, strict replacement)
   over the complete finite state graph;
2. replay (spec -> code): TLC emits the BFS history of every distinct (operation, resulting state) pair of
   the model with pairwise distinct priorities; vh replays each at uint64 bases 0, 2^63-k, 2^64-1-k on the
   real main queue (hook H3) and compares add results, schedules, contents, size after every operation;
3. trace validation (code -> spec): seeded random driver with priority ties; TLC validates the recorded
   trace against the model, choosing tie-breaks;
4. self-test: a corrupted trace must be rejected.
"""
import json
import os
import subprocess

import vlib


def _replay_streaming(ctx, cfg, maxseq, timeout):
    d = vlib.copy_specs(ctx, "txpool")
    out = ctx.path("replay-%s.json" % cfg)
    vh = vlib.popen_vh(["txpool-replay", "-in", "-", "-out", out, "-maxseq", str(maxseq)])
    res = vlib.run_tlc(ctx, d, "MCTxPool", cfg, timeout=timeout, sink=vh.stdin)
    vh.stdin.close()
    rc = vh.wait()
    vlib.tlc_must_pass(ctx, res, "behaviour generation " + cfg)
    if rc != 0:
        raise vlib.Infra("txpool-replay failed rc=%d" % rc)
    with open(out) as f:
        summ = json.load(f)
    if summ["behaviours"] != res.emitted or res.emitted == 0:
        raise vlib.Infra("emitted %d behaviours, replayed %d" % (res.emitted, summ["behaviours"]))
    return res, summ


def _gen_traces(ctx, path, seed, n, length, corrupt=-1):
    vlib.run_vh(ctx, ["txpool-trace", "-seed", str(seed), "-n", str(n), "-len", str(length),
                      "-out", path, "-corrupt", str(corrupt)])
    with open(path) as f:
        return f.readlines()


def run(ctx):
    q = ctx.quick()
    ctx.assumptions += [
        "state sequence numbers passed to Add never regress below what the queue was told about that sender",
        "transaction hashes are unique per added transaction (the pool's seen-cache guarantees this upstream)",
        "replay uses pairwise distinct priorities; ties are decided by trace validation where TLC picks the tie-break",
        "sequence windows 0..3 (replay) / 0..5 (traces) mapped to bases 0, 2^63-1-k, 2^64-1-k",
    ]
    if ctx.replay:
        with open(ctx.replay) as f:
            rp = json.load(f)["replay"]
        beh = ctx.path("one.ndjson")
        with open(beh, "w") as f:
            f.write(json.dumps(rp["behaviour"]) + "\n")
        out = vlib.run_vh(ctx, ["txpool-replay", "-in", beh, "-maxseq", str(rp.get("maxseq", 3))])
        s = json.loads(out)
        print(json.dumps(s["mismatches"], indent=1))
        if s["mismatch_count"]:
            vlib.report(ctx, "replayed behaviour still diverges", rp, {"class": s["mismatches"][0]["class"]})
        ctx.coverage.update(states=1, transitions=1, traces_validated_against_impl=0, samples=[rp])
        return

    # 1. design run
    d = vlib.copy_specs(ctx, "txpool")
    res = vlib.run_tlc(ctx, d, "MCTxPool", "design_quick.cfg" if q else "design_thorough.cfg", timeout=3000)
    vlib.tlc_must_pass(ctx, res, "design run")
    ctx.log("design: %d generated, %d distinct, depth %d" % (res.generated, res.distinct, res.depth))
    ctx.coverage.update(states=res.distinct, transitions=res.generated, design_depth=res.depth, exhaustive=True)

    # 2. replay
    gres, summ = _replay_streaming(ctx, "gen_quick.cfg" if q else "gen_thorough.cfg", 3, 3000)
    ctx.log("replay: %d behaviours, %d runs, %d ops, %d mismatches %s" % (
        summ["behaviours"], summ["runs"], summ["ops"], summ["mismatch_count"], summ["classes"]))
    seen = set()
    for m in summ["mismatches"] or []:
        if m["class"] in seen:
            continue
        seen.add(m["class"])
        what = "real queue diverges from TxPool.tla at step %d (%s, %s): expected %s observed %s; class %s (%d behaviours)" % (
            m["step"], m["op"], m["kind"], m["expected"], str(m["observed"])[:300], m["class"], summ["classes"][m["class"]])
        vlib.report(ctx, what, {"behaviour": m["behaviour"], "base": m["base"], "maxseq": 3}, {"class": m["class"]})
    ctx.coverage.update(
        replayed_behaviours=summ["behaviours"], replay_runs=summ["runs"], replay_ops=summ["ops"],
        replay_mismatches=summ["mismatch_count"], op_counts=summ["op_counts"], ret_counts=summ["ret_counts"],
        bases=summ["bases"], gen_states=gres.distinct,
        samples=[s for s in summ["samples"][:2]])

    # 3. trace validation with ties
    ntr, ln = (200, 40) if q else (4000, 60)
    tpath = ctx.path("trace.ndjson")
    lines = _gen_traces(ctx, tpath, ctx.seed, ntr, ln)
    rejected, nvalid, nev = vlib.validate_traces(ctx, ("txpool",), "MCTraceTxPool", "trace.cfg", lines)
    for seg in rejected:
        vlib.report(ctx, "recorded trace is not a behaviour of TxPool.tla; first unexplained event: %s" % seg["failing_event"],
                    {"trace": seg["events"]}, {"class": "trace-rejected"})
    ctx.coverage.update(traces_validated_against_impl=nvalid, trace_events=nev)
    ctx.log("traces: %d validated (%d events), %d rejected" % (nvalid, nev, len(rejected)))

    # 4. self-test: corrupt one observation, TLC must reject
    lines2 = _gen_traces(ctx, ctx.path("trace-corrupt.ndjson"), ctx.seed, 3, 40, corrupt=57)
    rej2, _, _ = vlib.validate_traces(ctx, ("txpool",), "MCTraceTxPool", "trace.cfg", lines2, max_rounds=1)
    if not rej2:
        raise vlib.Infra("self-test failed: corrupted trace accepted")
    ctx.coverage["selftest_corrupt_rejected"] = True
