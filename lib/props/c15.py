"""C15 - escrow shares are fair: no value is created or taken by rounding.

1. design: TLC checks on LedgerModel.tla (exact floor arithmetic of SharePool.Deposit/Withdraw, pro-rata slashing, debonding
   payout) the fairness clauses F1-F5 of Ledger.tla for all small-integer histories (incl. pools slashed to zero with
   outstanding shares and one-base-unit pools);
2. replay: every distinct (pool operation, resulting state) pair is executed on the REAL staking.SharePool and the real
   SlashEscrow and compared field by field;
3. trace validation: the same clauses, plus debonding timing (F6), are evaluated by TLC on the states recorded from real
   multiplexers (AddEscrow / ReclaimEscrow transactions, rewards with commission, evidence-driven slashing, epoch transitions).
"""
import json

import vlib
from props import cons_common as cc


def mutate(events):
    for i, e in enumerate(events):
        if e.get("ev") == "tx" and e.get("code") == 0 and e["spec"]["kind"] == "escrow" and e["spec"]["amount"] > 3:
            to = e["spec"]["to"]
            e["state"]["acc"][to]["as"] += 2   # two shares too many minted for the deposit
            for d in e["state"]["del"]:
                if d[0] == e["env"]["signer"] and d[1] == to:
                    d[2] += 2
            return i, events
    return None, events


def run(ctx):
    q = ctx.quick()
    ctx.assumptions += [
        "amounts below 2^31 (TLC integers); 2^128-scale balances are not covered",
        "F4 is stated per step for the acting account; rounding dust legitimately accrues to the other delegators",
        "debonding completes in EndBlock of the first block of the epoch that reaches the entry's end epoch",
    ]
    if ctx.replay:
        raise vlib.Infra("re-run the tier with the same VERIF_SEED to reproduce")
    d = vlib.copy_specs(ctx, "consensus")
    res = vlib.run_tlc(ctx, d, "MCLedger", "design_ledger_quick.cfg" if q else "design_ledger.cfg", timeout=3000)
    vlib.tlc_must_pass(ctx, res, "design run LedgerModel")
    ctx.coverage.update(states=res.distinct, transitions=res.generated, exhaustive=True)
    ctx.log("design: %d generated, %d distinct" % (res.generated, res.distinct))
    d = vlib.copy_specs(ctx, "consensus")
    out = ctx.path("pool.json")
    vh = vlib.popen_vh(["sharepool-replay", "-in", "-", "-out", out])
    g = vlib.run_tlc(ctx, d, "MCLedger", "gen_pool_quick.cfg" if q else "gen_pool.cfg", timeout=3000, sink=vh.stdin)
    vh.stdin.close()
    if vh.wait() != 0:
        raise vlib.Infra("sharepool-replay failed")
    vlib.tlc_must_pass(ctx, g, "pool behaviour generation")
    s = json.load(open(out))
    if s["behaviours"] != g.emitted or not g.emitted:
        raise vlib.Infra("emitted %d, replayed %d" % (g.emitted, s["behaviours"]))
    ctx.log("pool replay: %d behaviours, %d ops, %d mismatches" % (s["behaviours"], s["ops"], s["mismatch_count"]))
    for m in (s["mismatches"] or [])[:3]:
        vlib.report(ctx, "real SharePool differs from the model at step %d: %s" % (m["step"], m["msg"]), m, {"kind": "pool-replay"})
    cc.ledger_check(ctx, "C15", "traceledger_c15.cfg", mutate, "share fairness")
    ctx.coverage.update(pool_behaviours=s["behaviours"], pool_ops=s["ops"], pool_last_op_kinds=s["last_op_kinds"],
                        pool_zero_balance_with_shares=s["zero_balance_with_shares"])
