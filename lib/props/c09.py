"""C09 - only authentic, correctly sequenced transactions execute, once.

TraceLedger.tla (clauses C09) is evaluated by TLC on real multiplexer runs.  Every submitted byte string is logged with the
harness's INDEPENDENT verdict (Go crypto/ed25519 over SHA-512/256(context || body) with the context string re-stated in the
harness, and the account nonce read from the state before the transaction) next to the real result and the observed effect.
Rule: a transaction takes effect only with a valid signature for this chain and domain and the account's current nonce; the
nonce advances by exactly one, only for the signer; bytes without a valid signature change no key at all; the same signed
bytes never take effect twice (the trace spec keeps the set of executed ids across blocks and restarts).
"""
import vlib
from props import cons_common as cc


def mutate(events):
    for i, e in enumerate(events):
        if e.get("ev") == "tx" and e.get("code") == 0 and e["spec"]["kind"] not in ("system",) and e["env"].get("sig_ok"):
            e["env"]["sig_ok"] = False     # as if a transaction without a valid signature had executed
            return i, events
    return None, events


def run(ctx):
    ctx.assumptions += [
        "Ed25519 and SHA-512/256 are trusted; 'other domain' uses the registry's entity-registration context, 'other chain' another chain context",
        "bit flips are applied to the signature; flips in the body are covered by the malformed/badsig/junk classes",
    ]
    if ctx.replay:
        raise vlib.Infra("re-run the tier with the same VERIF_SEED to reproduce")
    d = vlib.copy_specs(ctx, "consensus")
    res = vlib.run_tlc(ctx, d, "MCLedger", "design_ledger_quick.cfg", timeout=3000)
    vlib.tlc_must_pass(ctx, res, "design run LedgerModel")
    ctx.coverage.update(states=res.distinct, transitions=res.generated)
    lines, sums = cc.ledger_check(ctx, "C09", "traceledger_c09.cfg", mutate, "tx authenticity")
    t = cc.totals(sums)["tx_kinds"]
    need = ["badsig", "wrongchain", "wrongdomain", "badnonce", "replay"]
    have = {k: sum(v for kk, v in t.items() if kk.endswith(":" + k)) for k in need}
    ctx.coverage.update(adversarial_submissions=have)
    if any(v == 0 for v in have.values()):
        raise vlib.Infra("vacuous run: some adversarial class never submitted: %s" % have)
