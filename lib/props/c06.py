"""C06 - finalized storage versions stay fully readable until pruned.

NodeDB.tla is the API-contract model (candidate roots per version, finalization discarding competitors, in-order pruning,
both root types, same-version chains on the legacy backend).  TLC checks the contract's own invariants and emits one history
per distinct (operation, resulting state) pair with the expected observation after every step.  The harness replays each
history on real badger and pathbadger databases and after EVERY operation compares GetLatestVersion / GetEarliestVersion /
GetRootsForVersion / HasRoot and a full read-back (iteration + Get) of every retained finalized root, every pending
candidate, and every discarded candidate that is still claimed present.  Gated mode (hook H1) additionally runs the full
reader at every intermediate durable state inside Commit / Finalize / Prune.
"""
import json

import vlib


def run_replay(ctx, cfg, every, gated=False, timeout=3000, restart=0):
    d = vlib.copy_specs(ctx, "mkvs")
    out = ctx.path("nodedb-%s-%s.json" % (cfg, gated))
    args = ["nodedb-replay", "-in", "-", "-out", out, "-every", str(every)]
    if gated:
        args.append("-gated")
    if restart:
        # environment steps: every `restart`-th replayed history that prunes also runs on disk; the database is closed, re-opened
        # six times by a foreign writer (one more level-zero table each), re-opened and compacted after the first prune and at the end
        args += ["-restart", str(restart)]
    vh = vlib.popen_vh(args)
    g = vlib.run_tlc(ctx, d, "MCNodeDB", cfg, timeout=timeout, sink=vh.stdin)
    vh.stdin.close()
    if vh.wait() != 0:
        raise vlib.Infra("nodedb-replay failed")
    vlib.tlc_must_pass(ctx, g, "generation " + cfg)
    s = json.load(open(out))
    if s["emitted"] != g.emitted or not g.emitted:
        raise vlib.Infra("%s: emitted %d, harness saw %d" % (cfg, g.emitted, s["emitted"]))
    ctx.log("%s gated=%s: %d/%d behaviours, %d runs (%d with restarts and compaction), %d steps, classes %s" % (
        cfg, gated, s["behaviours"], s["emitted"], s["runs"], s.get("restart_runs", 0), s["steps"], {k: v for k, v in s["classes"].items() if "declined" not in k}))
    return g, s


def verdicts(ctx, s):
    declined = {k: v for k, v in s["classes"].items() if ":declined:" in k}
    for k, v in declined.items():
        line = "OBSERVATION property=C06 operation declined (nothing lost): %s x%d" % (k, v)
        if line not in ctx.notes:
            ctx.notes.append(line)
            print(line)
    seen = set()
    for m in s["mismatches"] or []:
        kind = m["fail"]["kind"]
        if kind == "error":
            continue
        # the unreadable root is part of a same-version chain (or, for other kinds of failure, the history contains one)
        # (hist-empty: the root is in no chain and the chains of the history were built from the empty tree - on the pinned tree such
        #  chains damage nothing, so the failure is judged like one of a history without chains)
        chain = (m.get("chain_origin") or "") not in ("", "hist-empty") if m["fail"].get("root") else any(st["op"].get("parent") == "same" for st in m["steps"])
        keys = {"backend": m["backend"], "kind": kind if kind not in ("finalized-unreadable", "pending-unreadable") else "unreadable",
                "shares_kv_with_other_root": m["shares_kv_with_other_root"], "same_version_chain": chain}
        if chain:
            # where the chain of the unreadable root starts: on the pinned tree only roots of chains that start from a root of
            # the previous version lose nodes (inherited ones the head of the chain removed); a chain built from the empty tree
            # consists of nodes written in its own version, which Finalize keeps for every (transitively) finalized root
            # (hist-*: the unreadable root is not in a chain itself, the history before it contains chains of that origin)
            keys["chain_origin"] = {"prev": "prev", "hist-prev": "prev", "empty": "empty", "hist-empty": "empty"}.get(m.get("chain_origin"), "none")
        sig = json.dumps(keys, sort_keys=True)
        if sig in seen:
            continue
        seen.add(sig)
        what = "%s on %s at step %d: %s" % (kind, m["backend"], m["step"], m["fail"]["msg"][:500])
        vlib.report(ctx, what, {"backend": m["backend"], "steps": [st["op"] for st in m["steps"]], "fail": m["fail"]}, keys)


def run(ctx):
    q = ctx.quick()
    ctx.assumptions += [
        "histories are well-formed uses of the API (commit for the next version only, at most one root per type finalized, prune "
        "in order); histories pathbadger documents as unsupported (same-version chains, IO roots with children) run on badger only",
        "an operation returning an error is 'declined' (nothing is lost), reported as OBSERVATION",
        "contents over 2-3 keys incl. a prefix pair; versions 0..3; up to 2 candidates per version and type",
        "concurrency is explored at durable-write granularity (reader at every H1 point), not instruction granularity",
    ]
    if ctx.replay:
        rp = json.load(open(ctx.replay))["replay"]
        print(json.dumps(rp, indent=1)[:6000])
        raise vlib.Infra("C06 replay files are self-describing (backend + steps); re-run the tier to reproduce")
    d = vlib.copy_specs(ctx, "mkvs")
    tot_s = tot_t = 0
    for cfg in ("design_nodedb.cfg", "design_nodedb2.cfg"):
        res = vlib.run_tlc(ctx, d, "MCNodeDB", cfg, timeout=3000)
        vlib.tlc_must_pass(ctx, res, "design " + cfg)
        tot_s += res.distinct
        tot_t += res.generated
    ctx.coverage.update(states=tot_s, transitions=tot_t, exhaustive=True)
    ctx.log("design: %d generated, %d distinct" % (tot_t, tot_s))
    runs = []
    runs.append(run_replay(ctx, "gen_nodedb_b.cfg", 36 if q else 2, restart=2 if q else 30))
    runs.append(run_replay(ctx, "gen_nodedb_a.cfg", 60 if q else 3))
    runs.append(run_replay(ctx, "gen_nodedb_c.cfg", 1))          # up to four competing candidates in one version
    runs.append(run_replay(ctx, "gen_nodedb_d.cfg", 2 if q else 1, restart=12 if q else 3))          # one line of versions 0..3 over three keys, single writes
    # both root types with two competing candidates each: a version finalized with a state root and an IO root of which one was the
    # second candidate of its type (it has to be moved to the finalized place on pathbadger) and the other the first
    runs.append(run_replay(ctx, "gen_nodedb_e.cfg", 60 if q else 4))
    # competing I/O candidates of the same shape with other values (the second one finalized, the first one discarded)
    runs.append(run_replay(ctx, "gen_nodedb_f.cfg", 1))
    runs.append(run_replay(ctx, "gen_nodedb_b.cfg", 900 if q else 120, gated=True))
    for _, s in runs:
        verdicts(ctx, s)
    gates = runs[-1][1]["gates"]
    want = {"badger.commit.nodes_flushed", "badger.finalize.batch_flushed", "badger.finalize.meta_committed", "badger.prune.batch_flushed",
            "path.newbatch.seq_reserved", "path.commit.seqno_committed", "path.commit.meta_flushed", "path.finalize.copy_flushed",
            "path.finalize.copymeta_flushed", "path.finalize.delete_flushed", "path.finalize.deletemeta_flushed",
            "path.finalize.meta_committed", "path.prune.batch_flushed", "path.prune.batchmeta_flushed"}
    missing = want - set(gates)
    if missing:
        raise vlib.Infra("hook points never reached (hook removed or renamed?): %s" % sorted(missing))
    ops = {}
    for _, s in runs:
        for k, v in s["op_counts"].items():
            ops[k] = ops.get(k, 0) + v
    ctx.coverage.update(
        replayed_behaviours=sum(s["behaviours"] for _, s in runs), replay_runs=sum(s["runs"] for _, s in runs),
        replay_steps=sum(s["steps"] for _, s in runs), op_counts=ops, gated_reads=runs[-1][1]["gated_reads"], gates=gates,
        not_accepted_by_pathbadger=sum(s["not_accepted_by_pathbadger"] for _, s in runs),
        classes={i: s["classes"] for i, (_, s) in enumerate(runs)},
        traces_validated_against_impl=sum(s["runs"] for _, s in runs), gen_states=sum(g.distinct for g, _ in runs),
        samples=runs[0][1]["samples"][:2])
