"""C03 - MKVS tree and overlays behave as an ordered map.

The statement is a refinement, so the model (Mkvs.tla: ordered map + overlay stack) is the oracle.
1. design: overlay-algebra lemmas (commit/discard/new are view-preserving, ins/rem are Put/Del) and canonicity of the base tree;
2. replay: BFS transition-covering behaviours (ins, rem, remove-existing, commit, close+reopen, overlay new/commit/discard/copy up
   to depth 2-3) and random deep behaviours; after EVERY operation the harness compares Get of every key, Seek+Next from every seek
   position and a full iteration with the model, on no-database / badger / pathbadger trees with ample, tight, tiny node caches
   and a 1-byte value cache;
3. trace validation: a seeded random driver over larger alphabets records what the real trees answered; TLC validates the
   trace against TraceMkvs.tla.
"""
import json

import vlib
from props import mkvs_common as mc


def classify(ctx, m, counts):
    cfg = m["config"]
    keys = {"kind": m["fail"]["kind"]}
    if cfg["value_cap"]:
        keys = {"cache": "valuecap", "embedded_leaf": bool(m.get("embedded_leaf"))}
    elif cfg["cap"] == "tiny":
        keys = {"cache": "tiny", "capacity_le_path_depth": m["node_capacity"] <= m["path_depth"]}
    what = "real tree/overlay answer differs from the ordered-map model under %s (node cap %s, path depth %s) at step %d: %s" % (
        cfg, m["node_capacity"], m["path_depth"], m["step"], m["fail"]["msg"][:500])
    vlib.report(ctx, what, mc.lite(m), keys)


def run(ctx):
    q = ctx.quick()
    ctx.assumptions += [
        "values are non-nil (possibly empty) byte strings: the API conflates nil with absence",
        "no mutation during iteration (unsupported by the API)",
        "tree Commit / close+reopen only without open overlays (as the consensus layer uses them)",
        "in-memory trees without a node database only with an unlimited cache",
    ]
    if ctx.replay:
        rp = json.load(open(ctx.replay))["replay"]
        print(json.dumps(rp, indent=1)[:4000])
        raise vlib.Infra("C03 replay files are self-describing (ops + config); re-run the tier to reproduce")

    d = vlib.copy_specs(ctx, "mkvs")
    res = vlib.run_tlc(ctx, d, "MCMkvs", "design_map_quick.cfg" if q else "design_map_thorough.cfg", timeout=3000)
    vlib.tlc_must_pass(ctx, res, "design run (overlay lemmas)")
    ctx.log("design: %d generated, %d distinct" % (res.generated, res.distinct))
    ctx.coverage.update(states=res.distinct, transitions=res.generated, exhaustive=True)
    if not q:   # the fork operations (both objects of an Overlay.Copy kept) are in the small universe only
        res2 = vlib.run_tlc(ctx, d, "MCMkvs", "design_map_quick.cfg", timeout=3000)
        vlib.tlc_must_pass(ctx, res2, "design run (overlay lemmas incl. fork)")

    runs = []
    runs.append(mc.gen_replay(ctx, "gen_c03_quick.cfg" if q else "gen_c03_thorough.cfg", "c03", dbevery=4 if q else 1))
    runs.append(mc.gen_replay(ctx, "gen_c03_fork_quick.cfg" if q else "gen_c03_fork_thorough.cfg", "c03", dbevery=4 if q else 2))
    runs.append(mc.gen_replay(ctx, "sim_c03.cfg", "c03", sim=(30, 40) if q else (600, 40)))
    runs.append(mc.gen_replay(ctx, "sim_c03.cfg", "c03tiny", sim=(10, 40) if q else (150, 40)))
    counts = {}
    for _, s in runs:
        seen = set()
        for m in s["mismatches"] or []:
            key = (m["config"]["cap"], bool(m["config"]["value_cap"]), bool(m.get("embedded_leaf")), m["fail"]["kind"])
            if key in seen:
                continue
            seen.add(key)
            classify(ctx, m, counts)

    # code -> spec: random traces validated by TLC
    ntr, ln = (25, 150) if q else (400, 300)
    tp = ctx.path("mkvs-trace.ndjson")
    vlib.run_vh(ctx, ["mkvs-trace", "-seed", str(ctx.seed), "-n", str(ntr), "-len", str(ln), "-configs", "c03nv", "-out", tp])
    lines = open(tp).readlines()
    rej, nv, nev = vlib.validate_traces(ctx, ("mkvs",), "MCTraceMkvs", "tracemkvs.cfg", lines)
    for seg in rej:
        vlib.report(ctx, "recorded answers are not those of an ordered map (%s): %s" % (seg["events"][0].get("config"), seg["failing_event"][:300]),
                    {"trace": seg["events"][-60:]}, {"kind": "trace"})
    ctx.log("traces: %d valid, %d rejected, %d events" % (nv, len(rej), nev))
    cp = ctx.path("mkvs-corrupt.ndjson")
    vlib.run_vh(ctx, ["mkvs-trace", "-seed", str(ctx.seed), "-n", "3", "-len", "80", "-configs", "c03nv", "-corrupt", "40", "-out", cp])
    rej2, _, _ = vlib.validate_traces(ctx, ("mkvs",), "MCTraceMkvs", "tracemkvs.cfg", open(cp).readlines(), max_rounds=1)
    if not rej2:
        raise vlib.Infra("self-test failed: corrupted MKVS trace accepted")

    tot = lambda k: sum(s[k] for _, s in runs)
    ops = {}
    for _, s in runs:
        for k, v in s["op_counts"].items():
            ops[k] = ops.get(k, 0) + v
    ctx.coverage.update(
        replayed_behaviours=tot("behaviours"), replay_runs=tot("runs"), replay_ops=tot("ops"), op_counts=ops,
        mismatch_classes={i: s["classes"] for i, (_, s) in enumerate(runs)},
        configurations=" | ".join(s["configs"] for _, s in runs),
        traces_validated_against_impl=nv, trace_events=nev, selftest_corrupt_rejected=True, gen_states=runs[0][0].distinct,
        samples=[{"ops": [o["a"] + " " + str(o["k"]) + " " + str(o["v"]) for o in json.loads(json.dumps(runs[0][1]["samples"][-1]))["ops"]]}])
