"""C01 - replicas compute identical state and results for identical blocks.

1. design: Replica.tla models the multiplexer's proposal cache; TLC checks that along every assignment of ABCI paths
   (propose+cached / process / plain replay / failed-round proposal then process / failed-round proposal then BeginBlock of
   another block / restart before the height) every replica reports Exec(own previous state, decided block);
2. replay: TLC emits every row of path assignments; the harness runs seeded block histories on 4 real multiplexers
   (3 validator replicas on disk with both node-database backends, pruning on/off, different local minimum gas prices; one
   probe-carrying observer driven call by call) following those rows;
3. verdict: TLC validates the recorded `agree` events (TraceReplica.tla): state root, every transaction result (code,
   codespace, data, gas) and the validator-update set must be identical on all replicas at every height.
"""
import json
import os

import vlib
from props import cons_common as cc


def run(ctx):
    q = ctx.quick()
    ctx.assumptions += [
        "consensus-connection calls are sequential per replica as CometBFT guarantees; CheckTx, EstimateGas and historical state "
        "queries run free in goroutines while validator replicas execute BeginBlock..EndBlock (never during Commit, where CometBFT "
        "holds the mempool lock); the pruner runs on its own ticker in replicas with keep-N pruning",
        "block histories: staking methods, node (re)registration, unfreeze, epoch transitions, evidence, vote patterns",
    ]
    if ctx.replay:
        raise vlib.Infra("re-run the tier with the same VERIF_SEED to reproduce")
    d = vlib.copy_specs(ctx, "consensus")
    res = vlib.run_tlc(ctx, d, "MCReplica", "design_replica.cfg", timeout=1200)
    vlib.tlc_must_pass(ctx, res, "design run Replica")
    ctx.coverage.update(states=res.distinct, transitions=res.generated, exhaustive=True)
    rows = []
    g = vlib.run_tlc(ctx, d, "MCReplica", "gen_replica.cfg", timeout=1200, sink=lambda line: rows.append(json.loads(line)["row"]))
    vlib.tlc_must_pass(ctx, g, "schedule generation")
    uniq = sorted({json.dumps(r) for r in rows})
    sched = ctx.path("schedule.json")
    json.dump([json.loads(r) for r in uniq], open(sched, "w"))
    ctx.log("design: %d states; %d distinct path rows" % (res.distinct, len(uniq)))
    seeds = [ctx.seed * 1000 + i for i in range(6 if q else 160)]
    lines, sums = cc.run_scenarios(ctx, seeds, 120 if q else 330, extra=["-schedule", sched])
    # elections whose outcome hangs on tie-breaking: more equally staked validator entities than validator slots (the choice must
    # come from the shared entropy, not from anything replica-local such as map iteration order), several nodes per entity
    seeds2 = [ctx.seed * 1000 + 500 + i for i in range(3 if q else 48)]
    l2, s2 = cc.run_scenarios(ctx, seeds2, 60 if q else 200,
                              extra=["-schedule", sched, "-validators", "5", "-maxvals", "2", "-tiedstake", "-epoch", "4"])
    l3, s3 = cc.run_scenarios(ctx, [x + 100 for x in seeds2], 60 if q else 200,
                              extra=["-schedule", sched, "-validators", "4", "-maxvals", "3", "-maxperentity", "2", "-extranodes", "2",
                                     "-tiedstake", "-epoch", "4"])
    l4, s4 = cc.run_scenarios(ctx, [x + 200 for x in seeds2], 60 if q else 200, extra=["-schedule", sched] + cc.VRF)
    # replicas that join by state sync (snapshots served by the pathbadger and the badger validator replica, restored into both
    # backends, chunk order in-order / reverse / shuffled / after a corrupted copy / with duplicates) and catch up
    l5s, s5s = cc.run_scenarios(ctx, [x + 300 for x in seeds2], 130 if q else 330, extra=["-schedule", sched, "-statesync", "25"])
    l6s, s6s = cc.run_scenarios(ctx, [x + 400 for x in seeds2[:max(1, len(seeds2) // 3)]], 130 if q else 330,
                                extra=["-schedule", sched, "-statesync", "25"] + cc.VRF)
    lines += l2 + l3 + l4 + l5s + l6s
    sums += s2 + s3 + s4 + s5s + s6s
    nsync = sum(1 for ln in lines if '"ev":"statesync"' in ln)
    if nsync < 4:
        ctx.deferred_infra = getattr(ctx, "deferred_infra", []) + ["vacuous run: only %d state syncs" % nsync]
    ctx.coverage.update(state_syncs=nsync)
    t = cc.totals(sums)
    for s in sums:
        for dv in (s.get("diverged") or [])[:1]:
            ctx.notes.append("seed %d diverged at h=%s on %s (%s)" % (s["seed"], dv["h"], dv["replica"], dv["path"]))
    if not q:
        # race-detector build of the harness: the same concurrent schedules (CheckTx / EstimateGas / queries during block execution,
        # restarts) under Go's race detector.  A reported race is an OBSERVATION (the property speaks about results, which the
        # traces below decide); locations inside oasis-core are listed in the evidence file.
        import glob
        import re
        import subprocess
        rb = subprocess.run([os.path.join(vlib.VERIF, "lib", "build.sh")], env=dict(os.environ, RACE="1"), capture_output=True, text=True)
        vr = os.path.join(vlib.VERIF, ".build", "vh-race")
        if rb.returncode != 0 or not os.path.exists(vr):
            ctx.notes.append("race-detector build failed: %s" % rb.stderr[-300:])
        else:
            logp = ctx.path("race")
            lr, sr = cc.run_scenarios(ctx, [ctx.seed * 1000 + 800 + i for i in range(6)], 150, extra=["-schedule", sched], vh=vr,
                                      env={"GORACE": "halt_on_error=0 exitcode=0 log_path=%s" % logp})
            l5, s5 = cc.run_scenarios(ctx, [ctx.seed * 1000 + 850 + i for i in range(4)], 150, extra=["-schedule", sched] + cc.VRF, vh=vr,
                                      env={"GORACE": "halt_on_error=0 exitcode=0 log_path=%s" % logp})
            lines += lr + l5
            sums += sr + s5
            locs = {}
            for f in glob.glob(logp + ".*"):
                txt = open(f, errors="replace").read()
                for blk in txt.split("WARNING: DATA RACE")[1:]:
                    fr = [m for m in re.findall(r"\n  (github.com/oasisprotocol/oasis-core/go/[^\n]+)\n", blk)][:2]
                    key = " <-> ".join(sorted(set(fr))) or "outside oasis-core"
                    locs[key] = locs.get(key, 0) + 1
            for k, v in sorted(locs.items())[:8]:
                print("OBSERVATION property=C01 data race reported by the Go race detector (%d reports): %s" % (v, k[:300]), flush=True)
            ctx.coverage.update(race_detector_scenarios=len(sr) + len(s5), race_reports=locs)
    rej, nv, nev = cc.validate(ctx, lines, "TraceReplica", "tracereplica_c01.cfg")
    for seg in rej:
        vlib.report(ctx, "replicas disagree: %s at %s" % (seg["why"], seg["failing_event"][:600]),
                    {"begin": seg["events"][0], "failing_event": seg["events"][-1]}, {"kind": "diverged"})
    ctx.log("traces: %d valid, %d rejected; paths %s" % (nv, len(rej), t["paths"]))
    # self-test: forge a different app hash for one replica
    seg0 = []
    for ln in lines:
        if '"ev":"begin_chain"' in ln and seg0:
            break
        seg0.append(ln)
    forged, done = [], False
    for ln in seg0:
        e = json.loads(ln)
        if e.get("ev") == "agree" and not done and e["h"] > 5:
            e["replicas"][1]["apphash"] = "0" * 16
            done = True
        forged.append(json.dumps(e) + "\n")
    rej2, _, _ = cc.validate(ctx, forged, "TraceReplica", "tracereplica_c01.cfg")
    if not rej2:
        raise vlib.Infra("self-test failed: forged divergence accepted")
    # self-test 2: a state-synced replica reported to disagree must be rejected
    segs, cur = [], []
    for ln in lines:
        if '"ev":"begin_chain"' in ln and cur:
            segs.append(cur)
            cur = []
        cur.append(ln)
    segs.append(cur)
    seg = next((sg for sg in segs if any('"ev":"statesync"' in x for x in sg)), None)
    if seg is None:
        raise vlib.Infra("self-test: no scenario with a state sync")
    forged, done = [], False
    for ln in seg:
        e = json.loads(ln)
        if e.get("ev") == "statesync" and not done and e.get("agree"):
            e["agree"] = False
            done = True
        forged.append(json.dumps(e) + "\n")
    rej3, _, _ = cc.validate(ctx, forged, "TraceReplica", "tracereplica_c01.cfg")
    if not done or not rej3:
        raise vlib.Infra("self-test failed: forged state-sync divergence accepted")
    ctx.coverage.update(traces_validated_against_impl=nv, trace_events=nev, blocks=t["blocks"], replica_paths=t["paths"],
                        path_rows=len(uniq), replicas=4, concurrent_calls=sum(s.get("concurrent_calls", 0) for s in sums), selftest_forged_divergence_rejected=True,
                        samples=[json.loads(x) for x in lines if '"ev":"agree"' in x][:2])
