"""C14 - elections are deterministic and elect only eligible nodes.

1. design: Election.tla transcribes the validator election (filter, stake order with arbitrary tie-break, per-entity cap, stop
   at the maximum, power from stake); TLC checks the declarative rule for all small registries and every tie-break;
2. trace validation: on real multiplexers a read-only probe application placed between the registry and the scheduler records
   the registry / staking state exactly as the election reads it, a second probe the scheduler's result, and EndBlock's
   validator updates are recorded; TLC (TraceElection.tla) recomputes eligibility from the raw records (roles, expiration,
   freeze status, escrow vs. the sum of thresholds of all stake claims) and checks: elected subset of eligible, count and
   per-entity limits, no eligible entity with strictly more stake passed over, power non-decreasing in stake, previous set plus
   updates equals the new set.  Scenarios include elections after slashing, lapsing and frozen nodes, reclaims that drop an
   entity below its claims, two nodes of one entity competing, fewer validator slots than candidates.
Determinism across replicas is C01's agreement on the same runs.
"""
import json

import vlib
from props import cons_common as cc


def run(ctx):
    q = ctx.quick()
    ctx.assumptions += [
        "validator elections only: no compute runtime is registered in the scenarios, so runtime committees are not elected (see DESIGN.md)",
        "eligibility is evaluated on the election-time state (probe before the scheduler), not on the post-block state",
    ]
    if ctx.replay:
        raise vlib.Infra("re-run the tier with the same VERIF_SEED to reproduce")
    d = vlib.copy_specs(ctx, "consensus")
    res = vlib.run_tlc(ctx, d, "MCElection", "design_election.cfg", timeout=1200)
    vlib.tlc_must_pass(ctx, res, "design run Election")
    ctx.coverage.update(states=res.distinct, transitions=res.generated, exhaustive=True)
    ctx.log("design: %d states" % res.distinct)
    # runtime committees: the transcribed electCommitteeMembers against the committee rule, for all small registries, descriptors and
    # permutations; the counterexample configs show the model elects full two-role committees and refuses others
    rc = vlib.run_tlc(ctx, d, "MCCommittee", "design_committee_quick.cfg" if q else "design_committee_thorough.cfg", timeout=3000)
    vlib.tlc_must_pass(ctx, rc, "design run Committee")
    for inv in ("SomeFull", "SomeRefused"):
        rv = vlib.run_tlc(ctx, d, "MCCommittee", "design_committee_vac_%s.cfg" % inv, timeout=600)
        if rv.violated != inv:
            raise vlib.Infra("Committee.tla is vacuous: %s not refuted (violated=%s error=%s)" % (inv, rv.violated, rv.error))
    ctx.log("design committees: %d states; full two-role committees and refusals both reachable" % rc.distinct)
    ctx.coverage.update(states=res.distinct + rc.distinct, transitions=res.generated + rc.generated, committee_design_states=rc.distinct)
    n = 3 if q else 40
    blocks = 120 if q else 400
    lines, sums = [], []
    for extra in (["-maxvals", "3"], ["-maxvals", "2", "-extranodes", "1"], ["-maxvals", "1"],
                  ["-maxvals", "3", "-maxperentity", "2", "-extranodes", "2"],
                  # escrows exactly at / just below / just above the claim thresholds and around one voting-power unit
                  ["-tinystake", "-validators", "5", "-maxvals", "4"],
                  # VRF beacon backend: committee elections from VRF proofs (per-entity de-duplication and ordering by hashed
                  # betas); with a threshold of 5 proofs some epochs have a low-quality alpha and must elect no committee
                  ["-vrf", "-epoch", "6", "-validators", "5", "-maxgroup", "3"],
                  ["-vrf", "-epoch", "6", "-validators", "5", "-maxgroup", "3", "-vrfthreshold", "5", "-maxvals", "4"],
                  # nodes without the validator role (registered once a runtime exists, spread over the entities): an entity may have
                  # committee candidates and no elected validator (validators sit VRF epochs out more often in this group)
                  ["-vrf", "-epoch", "6", "-validators", "5", "-maxgroup", "3", "-computeonly", "5"],
                  ["-validators", "4", "-maxvals", "2", "-maxgroup", "3", "-computeonly", "4"]):
        ns = n + 2 if "-computeonly" in extra and "-vrf" in extra else n
        ls, ss = cc.run_scenarios(ctx, [ctx.seed * 1000 + 100 * len(sums) + i for i in range(ns)], blocks, extra=extra)
        lines += ls
        sums += ss
    nel = sum(1 for ln in lines if '"ev":"elect_out"' in ln)
    rej, nv, nev = cc.validate(ctx, lines, "TraceElection", "traceelection.cfg")
    for seg in rej:
        vlib.report(ctx, "election breaks the rule: %s at %s" % (seg["why"], seg["failing_event"][:700]),
                    {"begin": seg["events"][0], "tail": seg["events"][-3:]}, {"kind": seg["why"]})
    ctx.log("traces: %d valid, %d rejected, %d elections" % (nv, len(rej), nel))
    if nel < 20:
        raise vlib.Infra("vacuous run: only %d elections recorded" % nel)
    # self-test: elect a frozen/expired node in a recorded election
    seg0, done, forged_ids = [], False, []
    for ln in lines:
        if '"ev":"begin_chain"' in ln and seg0:
            break
        e = json.loads(ln)
        if e.get("ev") == "elect_in" and not done and e["nodes"]:
            e["nodes"][0]["frozen"] = True
            e["nodes"][-1]["frozen"] = True
            e["nodes"][len(e["nodes"]) // 2]["frozen"] = True
            forged_ids = [e["nodes"][0]["id"], e["nodes"][-1]["id"], e["nodes"][len(e["nodes"]) // 2]["id"]]
            done = True
        elif e.get("ev") == "elect_out" and done and forged_ids:
            # (the status the election found is read once it is over: the forged freeze has to be there, too)
            for i in forged_ids:
                e.setdefault("status_after", {}).setdefault(i, {"susp": []})["frozen"] = True
            forged_ids = []
        seg0.append(json.dumps(e) + "\n")
    rej2, _, _ = cc.validate(ctx, seg0, "TraceElection", "traceelection.cfg")
    if not rej2:
        raise vlib.Infra("self-test failed: election of frozen nodes accepted")
    # committees actually elected in the runs (anti-vacuity) and a self-test on them: a member swapped for a node of another
    # runtime / without the compute role, and a committee one member short, must both be rejected
    ncomm, nback, nmax, nrefused = 0, 0, 0, 0
    last_in = None
    for ln in lines:
        if '"ev":"elect_in"' in ln:
            last_in = json.loads(ln)
        elif '"ev":"elect_out"' in ln and last_in is not None:
            e = json.loads(ln)
            fresh = [c for c in e.get("committees", []) if c["valid_for"] == e["epoch"]]
            ncomm += len(fresh)
            nback += sum(1 for c in fresh if any(m["role"] == "backup" for m in c["members"]))
            have = {c["rt"] for c in fresh}
            for rt in last_in.get("runtimes", []):
                if rt["id"] in have and (rt["cons"]["worker"]["max"] or rt["cons"]["backup"]["max"]):
                    nmax += 1
                if rt["id"] not in have:
                    nrefused += 1
    ctx.log("committees: %d elected (%d with backup workers, %d under a MaxNodes constraint), %d elections left a runtime without one" % (
        ncomm, nback, nmax, nrefused))
    if ncomm < 10 or nback < 1 or nrefused < 1:
        raise vlib.Infra("vacuous run: committees %d, with backups %d, refused %d" % (ncomm, nback, nrefused))
    for how in ("short", "stranger"):
        seg, done, cur_in = [], False, None
        for ln in lines:
            if '"ev":"begin_chain"' in ln and seg and done:
                break
            if '"ev":"begin_chain"' in ln and not done:
                seg = []
            e = json.loads(ln)
            if e.get("ev") == "elect_in":
                cur_in = e
            if e.get("ev") == "elect_out" and not done and cur_in is not None:
                for c in e.get("committees", []):
                    if c["valid_for"] != e["epoch"] or not c["members"]:
                        continue
                    if how == "short":
                        c["members"] = c["members"][1:]
                        done = True
                    else:
                        inside = {m["id"] for m in c["members"]}
                        out = [x for x in cur_in["nodes"] if x["id"] not in inside and not any(r["id"] == c["rt"] for r in x["rts"])]
                        if out:
                            c["members"][0]["id"] = out[0]["id"]
                            done = True
                    if done:
                        break
            seg.append(json.dumps(e) + "\n")
        if not done:
            raise vlib.Infra("self-test (%s): no committee to forge" % how)
        rj, _, _ = cc.validate(ctx, seg, "TraceElection", "traceelection.cfg")
        if not rj:
            raise vlib.Infra("self-test failed: forged committee (%s) accepted" % how)
    ctx.coverage.update(committees_elected=ncomm, committees_with_backups=nback, committees_under_max_nodes=nmax,
                        elections_without_committee=nrefused, selftest_forged_committees_rejected=True)
    ctx.coverage.update(traces_validated_against_impl=nv, trace_events=nev, elections=nel, blocks=cc.totals(sums)["blocks"],
                        selftest_frozen_elected_rejected=True,
                        samples=[json.loads(x) for x in lines if '"ev":"elect_out"' in x][:2])
