"""C02 - MKVS root hash depends only on the key/value contents.

1. design: TLC checks that the transcribed insert/remove (MkvsTrie.tla) keep the tree equal to the independently defined
   canonical trie of its contents for ALL histories over an adversarial key universe (so the structural root is a function of
   the contents, and injective);
2. replay: BFS transition-covering behaviours (ins/rem/commit/reopen) and random deep behaviours are executed on real trees
   (no database, badger, pathbadger; ample and tight node caches; with and without write log; state and IO roots); after every
   operation (Commit(NoPersist)) or at every commit the real root hash must equal the hash formula re-computed by the harness
   over the spec's canonical shape;
3. rule: all distinct (contents, root) observations across histories/configurations/backends are validated by TLC
   (TraceRoots.tla): the relation must be a bijection.
"""
import json

import vlib
from props import mkvs_common as mc


def run(ctx):
    q = ctx.quick()
    ctx.assumptions += [
        "collision resistance of SHA-512/256 (structural terms stand for hashes)",
        "keys <= 3 bytes from an adversarial universe (empty key, prefix chains, first/last-bit differences), values <= 2 bytes incl. empty",
        "an in-memory tree without a node database is only run with an unlimited cache (evicted nodes could not be re-read)",
        "value-cache limits are exercised by C03, not here (see known finding C03 embedded-leaf eviction)",
    ]
    if ctx.replay:
        rp = json.load(open(ctx.replay))["replay"]
        print(json.dumps(rp, indent=1)[:4000])
        raise vlib.Infra("C02 replay files are self-describing (ops + config); re-run the tier to reproduce")

    d = vlib.copy_specs(ctx, "mkvs")
    res = vlib.run_tlc(ctx, d, "MCMkvs", "design_trie_quick.cfg" if q else "design_trie_thorough.cfg", timeout=3000)
    vlib.tlc_must_pass(ctx, res, "design run (Canonical)")
    ctx.log("design: %d generated, %d distinct" % (res.generated, res.distinct))
    ctx.coverage.update(states=res.distinct, transitions=res.generated, exhaustive=True)

    roots = ctx.path("roots.ndjson")
    roots2 = ctx.path("roots2.ndjson")
    g1, s1 = mc.gen_replay(ctx, "gen_c02_quick.cfg" if q else "gen_c02_thorough.cfg", "c02", dbevery=4 if q else 8, roots=roots)
    g2, s2 = mc.gen_replay(ctx, "sim_c02.cfg", "c02", sim=(40, 30) if q else (600, 40), roots=roots2)

    nviol = 0
    for s in (s1, s2):
        for m in s["mismatches"] or []:
            kind = m["fail"]["kind"]
            if kind in ("root", "error", "panic"):
                if nviol < 5:
                    vlib.report(ctx, "root/commit failure under %s at step %d: %s" % (m["config"], m["step"], m["fail"]["msg"][:400]),
                                mc.lite(m), {"kind": kind})
                nviol += 1
            else:
                ctx.notes.append("answer mismatch (C03 domain) under %s: %s" % (m["config"], m["fail"]["msg"][:200]))

    # rule: (contents, root) is a bijection across everything observed.  Contents ids are per-file, so validate separately.
    nobs = 0
    for path in (roots, roots2):
        lines = open(path).readlines()
        nobs += len(lines)
        rej, nv, nev = vlib.validate_traces(ctx, ("mkvs",), "TraceRoots", "traceroots.cfg", lines, begin_marker='"ev":"never"')
        for seg in rej:
            vlib.report(ctx, "contents/root relation is not a bijection: %s at %s" % (seg["why"], seg["failing_event"]),
                        {"trace_tail": seg["events"][-50:]}, {"kind": "bijection"})
    # self-test: flip one recorded root to another contents' root
    lines = open(roots).readlines()
    if len(lines) >= 2:
        a, b = json.loads(lines[0]), json.loads(lines[1])
        forged = lines + [json.dumps({"ev": "root", "cid": a["cid"], "root": b["root"]}) + "\n"]
        rej, _, _ = vlib.validate_traces(ctx, ("mkvs",), "TraceRoots", "traceroots.cfg", forged, begin_marker='"ev":"never"', max_rounds=1)
        if not rej:
            raise vlib.Infra("self-test failed: forged (contents, root) pair accepted")
    ctx.coverage.update(
        replayed_behaviours=s1["behaviours"] + s2["behaviours"], replay_runs=s1["runs"] + s2["runs"],
        replay_ops=s1["ops"] + s2["ops"], op_counts={k: s1["op_counts"].get(k, 0) + s2["op_counts"].get(k, 0) for k in set(s1["op_counts"]) | set(s2["op_counts"])},
        configurations=s1["configs"], distinct_contents_bfs=s1["distinct_final_contents"], distinct_contents_sim=s2["distinct_final_contents"],
        root_observations=nobs, traces_validated_against_impl=2, gen_states=g1.distinct,
        selftest_forged_root_rejected=True,
        samples=[{"ops": [o["a"] + " " + str(o["k"]) + " " + str(o["v"]) for o in json.loads(s1["samples"][0] if isinstance(s1["samples"][0], str) else json.dumps(s1["samples"][0]))["ops"]]}] if s1["samples"] else ["none"])
