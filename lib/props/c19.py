"""C19 - stateless nodes return provider data only if bound to a verified header.

1. design: TLC proves Stateless.tla's Op (transcription of stateless/core.go: order of checks, caches keyed by height,
   metadata-transaction fallback) => Rule (a returned datum is the canonical one of the requested height, results bound below
   the latest trusted height, proofs verify exactly for their transaction and block, caches hold canonical values) for every
   single and double field alteration, every response taken from another height and every request order within the bound;
   a second run lets the provider alter the components no header hash covers and must produce a counterexample
   (the model reproduces the known findings);
2. replay: TLC emits one shortest behaviour per distinct (request with alteration, resulting state); `vh stateless-replay`
   concretises each on the real verification functions (hook H2) with the recorded mainnet vectors and a synthetic chain,
   on a real stateless.Core over the real light client with a pre-populated trusted store, over synthetic transaction
   lists of sizes 0..16 (every index, other index, other list, altered proofs) and over byte-level mutants of the encoded
   responses; differences from the model's verdict/error class are MODEL-DRIFT only;
3. verdict: TLC validates the recorded outcomes against TraceStateless.tla (rule only): an outcome is a violation iff a
   response was accepted with a semantic projection different from the canonical datum's, an honest response was
   rejected, returned proofs do not verify, a cache holds a non-canonical value, or the real code panicked;
4. self-test: forged outcomes must be rejected by TLC.
"""
import collections
import concurrent.futures
import json
import os
import shutil

import vlib

SPEC = ("stateless",)


def _bound(e):
    return not (e["req"] == "GetBlockResults" and e["h"] >= e["latest"])


def _available(e):
    if e["mode"] != "core":
        return True
    if e["req"] == "GetValidators":
        return e["h"] <= e["latest"] or (e["h"] >= 2 and e["h"] - 1 <= e["latest"])
    return e["h"] <= e["latest"]


def _candidate(e):
    """Pre-selection of the outcomes TraceStateless!Verdict will flag (TLC decides; this only groups them by class so
    that every class is reported once and the remaining trace can be validated in one run)."""
    if "panic" in e:
        return True
    if not e["altered"] and _available(e) and not e["accepted"]:
        return True
    if e["accepted"] and _bound(e) and not e["projection_equal"]:
        return True
    if e["accepted"] and not _bound(e) and "height" in e["diff"]:
        return True
    if e["accepted"] and not e["proofs_ok"]:
        return True
    return not e["caches_ok"]


def _class(e):
    if "panic" in e:
        return "panic:" + e["req"]
    if not e["altered"] and not e["accepted"]:
        return "honest-rejected:" + e["req"]
    return e.get("class") or "unclassified:" + e["req"]


def _tlc_trace(ctx, lines, timeout=1200):
    d = vlib.copy_specs(ctx, *SPEC)
    with open(os.path.join(d, "trace.ndjson"), "w") as f:
        f.writelines(ln if ln.endswith("\n") else ln + "\n" for ln in lines)
    res = vlib.run_tlc(ctx, d, "TraceStateless", "trace.cfg", workers=1, timeout=timeout)
    shutil.rmtree(d, ignore_errors=True)
    return res


def _must_reject(ctx, lines, what):
    res = _tlc_trace(ctx, lines)
    if res.error or res.violated != "RuleHolds":
        return False, "%s: TLC rc=%s violated=%s error=%s" % (what, res.rc, res.violated, res.error)
    return True, ""


BEGIN = json.dumps({"ev": "begin", "section": "single"}, separators=(",", ":")) + "\n"


def _judge(ctx, lines):
    """Split the recorded outcomes into per-class candidates (each confirmed by TLC on its own) and the rest (validated by
    TLC in one run).  Returns (classes: {class: [count, representative event]}, rejected segments, valid, events)."""
    classes = collections.OrderedDict()
    rest = []
    for ln in lines:
        if not ln.strip():
            continue
        e = json.loads(ln)
        if e["ev"] in ("pair", "status"):      # composite answers for the latest height, pushed blocks: judged by TLC in the common run (PairVerdict, StatusVerdict)
            rest.append(ln)
            continue
        if e["ev"] != "begin" and _candidate(e):
            c = classes.setdefault(_class(e), [0, e, ln])
            c[0] += e.get("n", 1)
            continue
        rest.append(ln)
    confirmed = collections.OrderedDict()
    with concurrent.futures.ThreadPoolExecutor(max_workers=8) as ex:
        futs = {c: ex.submit(_must_reject, ctx, [BEGIN, v[2]], "candidate class " + c) for c, v in classes.items()}
        for c, f in futs.items():
            ok, msg = f.result()
            if not ok:
                # TLC does not consider it a violation: the pre-selection is wrong - an infrastructure problem
                raise vlib.Infra("pre-selected outcome is not rejected by TraceStateless: " + msg)
            confirmed[c] = classes[c][:2]
    rej, nvalid, nev = vlib.validate_traces(ctx, SPEC, "TraceStateless", "trace.cfg", rest)
    return confirmed, rej, nvalid, nev


def _report(ctx, confirmed, rej, tier):
    for c, (n, e) in confirmed.items():
        what = ("real stateless code %s (%d recorded outcomes of class %s): request %s height %s latest %s, alteration [%s], error %r, "
                "differing projection components %s" % (
                    "PANICKED on a provider response" if "panic" in e else "accepted an altered provider response as if canonical"
                    if e["accepted"] else "rejected an honest response", n, c, e["req"], e["h"], e["latest"], e["conc"],
                    e.get("panic") or e["err"], e["diff"]))
        vlib.report(ctx, what, {"event": e, "tier": tier}, {"class": c})
    for seg in rej:
        vlib.report(ctx, "recorded outcome not permitted by TraceStateless (%s): %s" % (seg["why"], seg["failing_event"][:600]),
                    {"event": json.loads(seg["failing_event"]), "tier": tier}, {"class": "trace-rejected"})


def _replay_harness(ctx, behaviours_sink_cfg=None, behaviours=None, tier="quick"):
    summ_path, trace_path = ctx.path("sl-sum.json"), ctx.path("sl-trace.ndjson")
    args = ["stateless-replay", "-in", "-", "-out", summ_path, "-trace", trace_path, "-tier", tier, "-repo", vlib.REPO]
    vh = vlib.popen_vh(args)
    emitted = 0
    gres = None
    if behaviours is not None:
        for b in behaviours:
            vh.stdin.write(json.dumps(b) + "\n")
    else:
        for cfg in behaviours_sink_cfg:
            d = vlib.copy_specs(ctx, *SPEC)
            gres = vlib.run_tlc(ctx, d, "MCStateless", cfg, timeout=1500, sink=vh.stdin)
            if not gres.ok():
                vh.stdin.close()
                vh.wait()
                vlib.tlc_must_pass(ctx, gres, "case generation " + cfg)
            ctx.log("generation %s: %d behaviours in %.1fs" % (cfg, gres.emitted, gres.wall))
            emitted += gres.emitted
    vh.stdin.close()
    if vh.wait() != 0:
        raise vlib.Infra("stateless-replay failed")
    with open(summ_path) as f:
        summ = json.load(f)
    if behaviours is None and (summ["behaviours"] != emitted or not emitted):
        raise vlib.Infra("emitted %d behaviours, replayed %d" % (emitted, summ["behaviours"]))
    with open(trace_path) as f:
        lines = f.readlines()
    if len(lines) < 10 and behaviours is None:
        raise vlib.Infra("driver produced no events")
    return gres, summ, lines


def run(ctx):
    q = ctx.quick()
    tier = "quick" if q else "thorough"
    ctx.assumptions += [
        "bound: the package-private verification functions (verifyBlock, verifyTransactions, verifyBlockResults, "
        "verifyTransactionProof, verifyNextValidators, verifyParameters, stateRootFromBlockTxs, transactionsWithProofs), and the "
        "public Core methods with both caches, driven with a real light.Client that serves a PRE-POPULATED trusted store and has no peers",
        "not covered: header verification by the light client itself, the P2P provider, block watching / Services event delivery, "
        "the light client advancing while a Core is in use (model only)",
        "the canonical chain's metadata transaction of height h carries the application hash of header h+1 (checked on the recorded "
        "mainnet pair 25300000/25300001; guaranteed by proposal validation, property C01)",
        "parameters read from state: MKVS proofs are verified by the real light query factory on the synthetic chain; on the "
        "function level a stub returns the canonical parameters (MKVS proofs are property C04)",
        "projection: height, hash, time, state-root fields, decoded header, decoded last commit (signatures, height, round, block id), "
        "transaction bytes, per-transaction (code, data, gas wanted, gas used, log, info, codespace), validator (key, power, address, "
        "priority, proposer), CometBFT and backend-agnostic parameters; EXCLUDED as documented non-verifiable in the code: block Size, "
        "result events (TODO #6210); block results of the latest trusted height are only height-bound (TODO #6210, stated in the property)",
        "hashes are injective (a differing datum with an equal hash is not searched for)",
    ]

    if ctx.replay:
        with open(ctx.replay) as f:
            rp = json.load(f)["replay"]
        e = rp["event"]
        lines = [BEGIN, json.dumps(e) + "\n"]
        try:
            op = json.loads(e["abs"])
            if e["mode"] in ("fn", "core") and isinstance(op, dict) and "req" in op:
                _, _, lines = _replay_harness(ctx, behaviours=[{"latest0": op["latest"], "ops": [op]}], tier=rp.get("tier", "quick"))
        except (ValueError, KeyError):
            pass
        confirmed, rej, nv, nev = _judge(ctx, lines)
        _report(ctx, confirmed, rej, tier)
        ctx.coverage.update(states=1, transitions=1, traces_validated_against_impl=nv, samples=[rp])
        return

    # 1. design runs
    d = vlib.copy_specs(ctx, *SPEC)
    res = vlib.run_tlc(ctx, d, "MCStateless", "design_quick.cfg" if q else "design_thorough.cfg", timeout=1500)
    vlib.tlc_must_pass(ctx, res, "design run Stateless Op => Rule")
    ctx.log("design: %d generated, %d distinct, depth %d" % (res.generated, res.distinct, res.depth))
    ctx.coverage.update(states=res.distinct, transitions=res.generated, design_depth=res.depth, exhaustive=True)
    d = vlib.copy_specs(ctx, *SPEC)
    ures = vlib.run_tlc(ctx, d, "MCStateless", "design_unbound.cfg", timeout=600)
    if ures.error or ures.violated != "RuleReturned":
        raise vlib.Infra("model with alterable unhashed components does not falsify RuleReturned (violated=%s error=%s)" % (
            ures.violated, ures.error))
    ctx.coverage["design_counterexample_for_unhashed_components"] = True

    # 2. generation -> real code
    gres, summ, lines = _replay_harness(
        ctx, ("gen_quick.cfg", "gen_seq_quick.cfg") if q else ("gen_thorough.cfg", "gen_seq_thorough.cfg"), tier=tier)
    ctx.log("replay: %d behaviours, %d abstract cases, %d concrete cases (%d skipped), %d trace events, core mode %s" % (
        summ["behaviours"], summ["abstract_cases"], summ["concrete_cases"], summ["skipped"], summ["trace_events"],
        json.dumps(summ["core"])))
    ctx.log("outcomes: %d harmless mutants, %d accepted differing only in excluded fields, %d drift, %d panics, %d undecodable wire mutants" % (
        summ["harmless_mutants"], summ["accepted_differing_only_in_excluded_fields"], summ["drift"], summ["panics"],
        summ["undecodable_wire_mutants"]))
    for m in (summ["drift_samples"] or [])[:5]:
        line = "MODEL-DRIFT property=C19 %s/%s %s h=%s latest=%s [%s]: model %s, code %s" % (
            m["mode"], m["u"], m["req"], m["h"], m["latest"], m["conc"], m["model_err"], m["errclass"])
        ctx.drift.append(line)
        print(line)

    # 3. verdict by TLC
    confirmed, rej, nvalid, nev = _judge(ctx, lines)
    ctx.log("trace validation: %d segments valid, %d rejected, %d events; %d flagged classes %s" % (
        nvalid, len(rej), nev, len(confirmed), {c: v[0] for c, v in confirmed.items()}))
    _report(ctx, confirmed, rej, tier)

    # 4. self-test: forged outcomes must be rejected
    forged = []
    base = None
    for ln in lines:
        e = json.loads(ln)
        if e["ev"] == "case" and e["altered"] and not e["accepted"] and _bound(e) and "panic" not in e:
            base = e
            break
    honest = None
    for ln in lines:
        e = json.loads(ln)
        if e["ev"] == "case" and not e["altered"] and e["accepted"]:
            honest = e
            break
    if base is None or honest is None:
        raise vlib.Infra("self-test: no rejected-altered / accepted-honest outcome recorded")
    f1 = dict(base, accepted=True, projection_equal=False, diff=["forged"], err="", errclass="ok")
    f2 = dict(honest, accepted=False, err="forged rejection", errclass="other")
    f3 = dict(honest, caches_ok=False)
    f4 = dict(honest, panic="forged panic")
    for name, f in (("altered-accepted-projection-differs", f1), ("honest-rejected", f2), ("cache-non-canonical", f3), ("panic", f4)):
        ok, msg = _must_reject(ctx, [BEGIN, json.dumps(honest) + "\n", json.dumps(f) + "\n"], "self-test " + name)
        if not ok:
            raise vlib.Infra("self-test failed: forged outcome accepted by TraceStateless (%s)" % msg)
        forged.append(name)
    ok_res = _tlc_trace(ctx, [BEGIN, json.dumps(honest) + "\n", json.dumps(base) + "\n"])
    if not ok_res.ok():
        raise vlib.Infra("self-test: unforged outcomes rejected")

    samples = []
    for s in (summ.get("samples") or [])[:3] + (summ.get("harmless_samples") or [])[:2]:
        samples.append({k: s[k] for k in ("mode", "u", "req", "h", "latest", "abs", "conc", "accepted", "err", "projection_equal", "diff", "xdiff")})
    ctx.coverage.update(
        traces_validated_against_impl=max(0, nev - nvalid - len(rej) - sum(len(s["events"]) for s in rej)),
        trace_segments_valid=nvalid, trace_events=nev, outcomes_confirmed_as_findings=sum(v[0] for v in confirmed.values()),
        generated_behaviours=summ["behaviours"], abstract_cases=summ["abstract_cases"], concrete_cases=summ["concrete_cases"],
        skipped_concretisations=summ["skipped"], skip_reasons=summ["skip_reasons"],
        by_request=summ["by_request"], by_alteration=summ["by_alteration"], by_mode=summ["by_mode"], by_outcome=summ["by_outcome"],
        harmless_mutants=summ["harmless_mutants"],
        accepted_differing_only_in_excluded_fields=summ["accepted_differing_only_in_excluded_fields"],
        drift=summ["drift"], panics=summ["panics"], undecodable_wire_mutants=summ["undecodable_wire_mutants"],
        proof_checks=summ["proof_checks"], core_mode=summ["core"],
        flagged_classes={c: v[0] for c, v in confirmed.items()},
        selftest_forged_rejected=forged, samples=samples or ["(no sample recorded)"])
