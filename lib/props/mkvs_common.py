"""Shared by C02/C03: TLC behaviour generation from specs/mkvs/Mkvs.tla streamed into `vh mkvs-replay`."""
import json

import vlib


def gen_replay(ctx, cfg, configs, dbevery=1, sim=None, roots=None, timeout=3000, workers=None):
    """Run TLC on MCMkvs with `cfg` (BFS transition coverage, or -simulate when sim=(num, depth)) and replay the
    emitted behaviours on real trees under configuration set `configs`.  Returns (TlcResult, summary dict)."""
    d = vlib.copy_specs(ctx, "mkvs")
    out = ctx.path("mkvs-%s-%s.json" % (cfg, configs))
    args = ["mkvs-replay", "-in", "-", "-out", out, "-configs", configs, "-dbevery", str(dbevery)]
    if roots:
        args += ["-roots", roots]
    vh = vlib.popen_vh(args)
    extra = []
    if sim:
        extra = ["-simulate", "num=%d" % sim[0], "-depth", str(sim[1]), "-seed", str(ctx.seed)]
    res = vlib.run_tlc(ctx, d, "MCMkvs", cfg, timeout=timeout, sink=vh.stdin, extra=extra, workers=workers)
    vh.stdin.close()
    rc = vh.wait()
    if sim:
        # simulation mode ends with "Finished" and rc 0 unless something broke
        if res.error or res.violated:
            raise vlib.Infra("simulation %s: %s %s\n%s" % (cfg, res.error, res.violated, "\n".join(res.tail[-20:])))
    else:
        vlib.tlc_must_pass(ctx, res, "generation " + cfg)
    if rc != 0:
        raise vlib.Infra("mkvs-replay failed rc=%d" % rc)
    summ = json.load(open(out))
    if summ["behaviours"] != res.emitted or res.emitted == 0:
        raise vlib.Infra("%s: emitted %d behaviours, replayed %d" % (cfg, res.emitted, summ["behaviours"]))
    ctx.log("%s/%s: %d behaviours, %d runs, %d ops, mismatches %s" % (
        cfg, configs, summ["behaviours"], summ["runs"], summ["ops"], summ["classes"]))
    return res, summ


def lite(m):
    return {"config": m["config"], "ops": m["ops"], "step": m["step"], "fail": m["fail"],
            "node_capacity": m["node_capacity"], "path_depth": m["path_depth"], "embedded_leaf": m.get("embedded_leaf")}
