"""C13 - storage sync applies exactly the announced state transition.

1. design: TLC checks on WriteLog.tla that the coalesced log reproduces the transition, is order-free and minimal, for all
   initial contents over 4 keys x {empty, non-empty} values and all batches <= 5 operations;
2. replay: for every distinct (initial contents, batch prefix, last op) the harness builds r1 and r2 on real badger /
   pathbadger databases (state and IO roots), fetches NodeDB.GetWriteLog(r1, r2), applies it to a tree at r1 and compares the
   root with r2 (Rule 1); then every single corruption of the log enumerated by TLC (drop, duplicate, alter value, turn into
   delete, swap, spurious extra entry), with TLC's verdict whether it still yields m2, is passed to the real
   storage RootCache.Apply against a second database: error / HasRoot(expected) / read-back are compared (Rule 2).
GetWriteLog returning an error counts as "not served" (an OBSERVATION, never an alarm).
"""
import json

import vlib


def run(ctx):
    q = ctx.quick()
    ctx.assumptions += [
        "equality of contents stands for equality of roots (C02)",
        "GetWriteLog errors are 'log not served' (the property speaks about logs that are served)",
        "Apply against an expected root that is already present (e.g. the implicit empty root) is a no-op by design and is skipped",
        "corruptions are single edits of the coalesced log; keys <= 2 bytes incl. the empty key and a prefix pair; values empty / 1 byte",
    ]
    if ctx.replay:
        rp = json.load(open(ctx.replay))["replay"]
        print(json.dumps(rp, indent=1)[:4000])
        raise vlib.Infra("C13 replay files are self-describing (m1, ops, variant, backend); re-run the tier to reproduce")
    d = vlib.copy_specs(ctx, "mkvs")
    res = vlib.run_tlc(ctx, d, "MCWriteLog", "design_wlog.cfg", timeout=3000)
    vlib.tlc_must_pass(ctx, res, "design run WriteLog")
    ctx.coverage.update(states=res.distinct, transitions=res.generated, exhaustive=True)
    ctx.log("design: %d generated, %d distinct" % (res.generated, res.distinct))

    keep = []
    seen = set()

    def one_gen(cfg, tag):
        d = vlib.copy_specs(ctx, "mkvs")
        out = ctx.path("wlog-%s.json" % tag)
        vh = vlib.popen_vh(["wlog-replay", "-in", "-", "-out", out, "-maxaccept", "1" if q else "1000", "-convevery", "4" if q else "64"])

        def sink(line):
            if len(keep) < 400:
                keep.append(line)
            vh.stdin.write(line)
        g = vlib.run_tlc(ctx, d, "MCWriteLog", cfg, timeout=3000, sink=sink)
        vh.stdin.close()
        if vh.wait() != 0:
            raise vlib.Infra("wlog-replay failed")
        vlib.tlc_must_pass(ctx, g, "generation " + cfg)
        s = json.load(open(out))
        if s["cases"] != g.emitted or not g.emitted:
            raise vlib.Infra("%s: emitted %d cases, replayed %d" % (cfg, g.emitted, s["cases"]))
        ctx.log("replay %s: %d cases, served %d, not served %d, applies %d, findings %s" % (
            tag, s["cases"], s["served"], s["not_served"], s["applies"], s["classes"]))
        if s["not_served"]:
            print("OBSERVATION property=C13 GetWriteLog declined %d of %d (r1, r2) pairs (error return, no log served; pairs with r1 != r2 are judged below, r1 = r2 is not a pair of consecutive roots): %s" % (
                s["not_served"], s["served"] + s["not_served"], json.dumps(s.get("declines") or {})[:600]))
        for f in s["findings"] or []:
            kind = f["kind"]
            if kind == "rejected-good" and (f.get("variant") or {}).get("c") != "honest":
                line = "MODEL-DRIFT property=C13 harmless corrupted log rejected: %s" % f["msg"][:200]
                if len(ctx.drift) < 5:
                    ctx.drift.append(line)
                    print(line)
                continue
            noop = bool((f.get("variant") or {}).get("noop_overwrite")) if kind == "declined" else None
            if (kind, f["backend"], noop) in seen:
                continue
            seen.add((kind, f["backend"], noop))
            keys = {"kind": kind}
            if kind == "declined":      # no log served for two consecutive, different, finalized roots
                keys.update(backend=f["backend"], noop_overwrite=noop)
            vlib.report(ctx, "%s on %s/%s: %s" % (kind, f["backend"], f["root_type"], f["msg"][:600]), f, keys)
        return g, s

    # (a) one case per distinct (initial contents, batch result, last op), each with every single corruption of its log
    g, s = one_gen("gen_wlog_quick.cfg" if q else "gen_wlog_thorough.cfg", "states")
    # (b) every batch HISTORY over a two-key universe (remove / re-insert / remove ... of one key inside a batch): the served log
    #     and the honest apply only
    g2, s2 = one_gen("gen_wlog_hist_quick.cfg" if q else "gen_wlog_hist_thorough.cfg", "hist")
    # self-test: flip TLC's verdict on one corrupted variant; the real Apply must then disagree with the forged expectation
    forged = None
    for line in keep:
        c = json.loads(line)
        for v in c["variants"]:
            if not v["accept"] and c["m2"]:
                v["accept"] = True
                c["variants"] = [v]
                forged = c
                break
        if forged:
            break
    if not forged:
        raise vlib.Infra("self-test: no rejecting variant found")
    fp = ctx.path("forged.ndjson")
    open(fp, "w").write(json.dumps(forged) + "\n")
    fs = json.loads(vlib.run_vh(ctx, ["wlog-replay", "-in", fp]))
    if not any(k.startswith("rejected-good") for k in fs["classes"]):
        raise vlib.Infra("self-test failed: forged expectation not detected (%s)" % fs["classes"])
    ctx.coverage.update(
        selftest_forged_expectation_detected=True,
        cases=s["cases"], served=s["served"], not_served=s["not_served"], log_drift=s["log_drift"], applies=s["applies"],
        history_cases=s2["cases"], history_served=s2["served"], history_log_drift=s2["log_drift"],
        converging_forks=s.get("converging_forks", 0) + s2.get("converging_forks", 0),
        converging_logs_served=s.get("converging_logs_served", 0) + s2.get("converging_logs_served", 0),
        expected_accept=s["expected_accept"], expected_reject=s["expected_reject"],
        expected_root_already_present=s["expected_root_already_present"],
        traces_validated_against_impl=s["cases"] + s2["cases"], samples=s["samples"][:2], gen_states=g.distinct)
