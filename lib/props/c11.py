"""C11 - a runtime round finalizes only with unanimity or backup majority.

1. design: TLC proves PoolOp (transcription of commitment.Pool) => PoolRule (declarative) over all committee shapes,
   commitment multisets/orders and processing placements within the bound;
2. replay: one behaviour per distinct (operation, resulting model state) pair is executed on the real Pool (plain and with a
   CBOR round-trip after every call, as the roothash application stores it); differences from PoolOp are MODEL-DRIFT;
3. verdict: the real outcomes of every drifting behaviour, of every k-th other behaviour and of seeded random rounds with
   larger committees (<=5 primary, <=4 backup, 3 results) are validated by TLC against TracePoolRule (rule only);
4. application level: seeded scenarios on real multiplexers register runtimes, let committees be elected and submit executor
   commitments as consensus transactions (members and non-members, schedulers of every rank, agreeing / dissenting / failure
   votes, stale rounds, silence until the round timer fires); the round state of every runtime is recorded after BeginBlock and
   after EndBlock and TLC judges every runtime block the roothash application emits with the same PoolRule (TraceRoothash.tla).
"""
import json

import vlib
from props import cons_common as cc


def run(ctx):
    q = ctx.quick()
    ctx.assumptions += [
        "commitments reach the pool already verified (signature, RAK, header sanity); a scheduler never submits a failure for itself",
        "the declarative rule reads 'present' as agreeing votes: at least |primary| - stragglers primary votes equal the result",
        "replayed behaviours: committees <=3 primary / <=3 backup with overlaps, <=4 add calls, <=3 processing calls",
    ]
    if ctx.replay:
        with open(ctx.replay) as f:
            rp = json.load(f)["replay"]
        lines = [json.dumps(e) + "\n" for e in rp["trace"]]
        rej, nv, nev = vlib.validate_traces(ctx, ("roothash",), "TracePoolRule", "tracerule.cfg", lines)
        for seg in rej:
            vlib.report(ctx, "replayed trace still breaks PoolRule: %s" % seg["why"], {"trace": seg["events"]}, {"class": seg["why"]})
        ctx.coverage.update(states=1, transitions=1, traces_validated_against_impl=nv, samples=[rp])
        return

    d = vlib.copy_specs(ctx, "roothash")
    res = vlib.run_tlc(ctx, d, "MCPoolOp", "design_quick.cfg" if q else "design_thorough.cfg", timeout=3000)
    vlib.tlc_must_pass(ctx, res, "design run PoolOp => PoolRule")
    ctx.log("design: %d generated, %d distinct" % (res.generated, res.distinct))
    ctx.coverage.update(states=res.distinct, transitions=res.generated, exhaustive=True)

    # replay + record
    d = vlib.copy_specs(ctx, "roothash")
    summ_path, trace_path = ctx.path("pool-sum.json"), ctx.path("pool-trace.ndjson")
    vh = vlib.popen_vh(["pool-replay", "-in", "-", "-out", summ_path, "-trace", trace_path, "-every", "5" if q else "10"])
    gres = vlib.run_tlc(ctx, d, "MCPoolOp", "gen_quick.cfg" if q else "gen_thorough.cfg", timeout=3000, sink=vh.stdin)
    vh.stdin.close()
    if vh.wait() != 0:
        raise vlib.Infra("pool-replay failed")
    vlib.tlc_must_pass(ctx, gres, "behaviour generation")
    summ = json.load(open(summ_path))
    if summ["behaviours"] != gres.emitted or not gres.emitted:
        raise vlib.Infra("emitted %d, replayed %d" % (gres.emitted, summ["behaviours"]))
    ctx.log("replay: %d behaviours, %d ops, %d differ from PoolOp, %d panics" % (
        summ["behaviours"], summ["ops"], summ["op_mismatches"], summ["panics"]))
    for m in (summ["mismatches"] or [])[:5]:
        line = "MODEL-DRIFT property=C11 real pool differs from PoolOp at step %d of %s" % (m["step"], json.dumps(m["behaviour"]["ops"])[:300])
        ctx.drift.append(line)
        print(line)

    lines = open(trace_path).readlines()
    rej, nv, nev = vlib.validate_traces(ctx, ("roothash",), "TracePoolRule", "tracerule.cfg", lines)
    ctx.log("rule traces from replay: %d valid, %d rejected, %d events" % (nv, len(rej), nev))

    ntr = 3000 if q else 60000
    tp = ctx.path("rand.ndjson")
    vlib.run_vh(ctx, ["pool-trace", "-seed", str(ctx.seed), "-n", str(ntr), "-out", tp])
    rlines = open(tp).readlines()
    rej2, nv2, nev2 = vlib.validate_traces(ctx, ("roothash",), "TracePoolRule", "tracerule.cfg", rlines)
    ctx.log("rule traces from random driver: %d valid, %d rejected, %d events" % (nv2, len(rej2), nev2))
    for seg in rej + rej2:
        vlib.report(ctx, "real commitment pool outcome not permitted by PoolRule (%s): %s" % (seg["why"], seg["failing_event"]),
                    {"trace": seg["events"]}, {"class": seg["why"]})

    # self-test
    cp = ctx.path("corrupt.ndjson")
    vlib.run_vh(ctx, ["pool-trace", "-seed", str(ctx.seed), "-n", "60", "-corrupt", "20", "-out", cp])
    rej3, _, _ = vlib.validate_traces(ctx, ("roothash",), "TracePoolRule", "tracerule.cfg", open(cp).readlines(), max_rounds=1)
    if not rej3:
        raise vlib.Infra("self-test failed: forged finalization accepted by TracePoolRule")
    finals = sum(1 for ln in rlines if '"ret":"final"' in ln)

    # 4. the roothash application: commitments as transactions, blocks judged by the same rule
    seeds = [ctx.seed * 1000 + 700 + i for i in range(6 if q else 120)]
    alines, asums = cc.run_scenarios(ctx, seeds, 160 if q else 400, extra=["-validators", "5", "-maxgroup", "3"])
    al2, as2 = cc.run_scenarios(ctx, [x + 300 for x in seeds[:max(2, len(seeds) // 3)]], 160 if q else 400,
                                extra=["-vrf", "-epoch", "6", "-validators", "5", "-maxgroup", "3"])
    alines += al2
    asums += as2
    # long epochs: a round that waits for its timer (a dissenting primary vote, nobody resolves it) sees the timer expire before the
    # epoch - and with it the committee - ends
    al3, as3 = cc.run_scenarios(ctx, [x + 500 for x in seeds[:max(3, len(seeds) // 3)]], 160 if q else 400,
                                extra=["-validators", "5", "-maxgroup", "3", "-epoch", "8", "-rhfocus"])
    alines += al3
    asums += as3
    stats = {"normal": 0, "failed": 0, "epoch": 0, "suspended": 0, "disc_events": 0, "commits_accepted": 0, "commits_rejected": 0,
             "timers_seen": 0, "two_role_rounds": 0}
    last = {}
    for ln in alines:
        if '"ev":"begin_chain"' in ln:
            last = {}
        elif '"ev":"rh"' in ln or '"ev":"rhb"' in ln:
            e = json.loads(ln)
            stats["disc_events"] += len(e.get("disc_events") or [])
            for r in e["rts"]:
                p = last.get(r["rt"])
                if p is not None and r["round"] != p["round"]:
                    stats[r["htype"]] = stats.get(r["htype"], 0) + 1
                    if r["htype"] == "normal" and p["b"]:
                        stats["two_role_rounds"] += 1
                if r["next_timeout"] != -1:
                    stats["timers_seen"] += 1
                last[r["rt"]] = r
        elif '"kind":"rhcommit"' in ln:
            e = json.loads(ln)
            stats["commits_accepted" if e["code"] == 0 else "commits_rejected"] += 1
    ctx.log("roothash application: %d blocks of %d scenarios; runtime blocks %s" % (cc.totals(asums)["blocks"], len(seeds), stats))
    if stats["normal"] < 20 or stats["failed"] < 1 or stats["disc_events"] < 1 or stats["commits_rejected"] < 5:
        raise vlib.Infra("vacuous application-level run: %s" % stats)
    arej, anv, anev = vlib.validate_traces(ctx, ("consensus", "roothash"), "TraceRoothash", "traceroothash.cfg", alines,
                                           begin_marker='"ev":"begin_chain"', timeout=3000)
    ctx.log("application traces: %d valid, %d rejected, %d events" % (anv, len(arej), anev))
    for seg in arej:
        vlib.report(ctx, "runtime block emitted by the roothash application is not permitted by the rule (%s): %s" % (
            seg["why"], seg["failing_event"][:700]), {"trace_tail": seg["events"][-40:]}, {"class": "app:" + seg["why"]})
    # self-tests on the first scenario: (a) a finalized block with another state root, (b) an accepted commitment of the
    # finalizing round withheld from TLC, (c) an expired timer left armed - each must be rejected
    # (the first scenario that has a normal runtime block: a scenario may pass without one)
    segs, cur = [], []
    for ln in alines:
        if '"ev":"begin_chain"' in ln and cur:
            segs.append(cur)
            cur = []
        cur.append(ln)
    if cur:
        segs.append(cur)

    def has_normal(seg):
        lv = {}
        for ln in seg:
            if '"ev":"rh"' in ln:
                for r in json.loads(ln)["rts"]:
                    p = lv.get(r["rt"])
                    if p and r["round"] == p["round"] + 1 and r["htype"] == "normal":
                        return True
                    lv[r["rt"]] = r
            elif '"ev":"rhb"' in ln:
                for r in json.loads(ln)["rts"]:
                    lv[r["rt"]] = r
        return False
    seg0 = next((sg for sg in segs if has_normal(sg)), segs[0] if segs else [])
    target, lastv = None, {}      # a (runtime, round) of that scenario that ended with a normal block
    for ln in seg0:
        e = json.loads(ln)
        if e.get("ev") in ("rh", "rhb"):
            for r in e["rts"]:
                p = lastv.get(r["rt"])
                if target is None and p and r["round"] == p["round"] + 1 and r["htype"] == "normal":
                    target = (r["rt"], r["round"])
                lastv[r["rt"]] = r
    for how in ("root", "withheld", "timer"):
        forged, done, lastv = [], False, {}
        for ln in seg0:
            e = json.loads(ln)
            if not done and e.get("ev") == "rh":
                for r in e["rts"]:
                    p = lastv.get(r["rt"])
                    if how == "root" and p and r["round"] == p["round"] + 1 and r["htype"] == "normal":
                        r["sroot"] = "0123456789abcdef"
                        done = True
                    if how == "timer" and r["next_timeout"] == -1 and r["has_committee"]:
                        r["next_timeout"] = e["h"]
                        done = True
                    if done:
                        break
            if e.get("ev") in ("rh", "rhb"):
                for r in e["rts"]:
                    lastv[r["rt"]] = r
            if how == "withheld" and target and e.get("ev") == "tx" and e.get("spec", {}).get("kind") == "rhcommit" and e["code"] == 0 \
                    and e["spec"]["node"] == e["spec"]["sched"] and (e["spec"]["to"], e["spec"]["amount"]) == target:
                e["code"] = 7      # the schedulers' own commitments of that round are hidden: nothing they proposed may be finalized
                done = True
            forged.append(json.dumps(e) + "\n")
        if not done:
            raise vlib.Infra("self-test (%s): nothing to forge in the first scenario" % how)
        rj, _, _ = vlib.validate_traces(ctx, ("consensus", "roothash"), "TraceRoothash", "traceroothash.cfg", forged,
                                        begin_marker='"ev":"begin_chain"', max_rounds=1)
        if not rj:
            raise vlib.Infra("self-test failed: forged application trace (%s) accepted" % how)
    ctx.coverage.update(app_scenarios=len(seeds), app_runtime_blocks=stats, app_traces_valid=anv, app_trace_events=anev,
                        selftest_forged_app_traces_rejected=True)
    ctx.coverage.update(
        replayed_behaviours=summ["behaviours"], replay_ops=summ["ops"], drift=summ["op_mismatches"], panics=summ["panics"],
        ret_counts=summ["ret_counts"], traces_validated_against_impl=nv + nv2 + anv, trace_events=nev + nev2 + anev,
        random_rounds=ntr, random_finalizations=finals, selftest_forged_final_rejected=True,
        samples=summ["samples"][:2])
