"""C11 - a runtime round finalizes only with unanimity or backup majority.

1. design: TLC proves PoolOp (transcription of commitment.Pool) => PoolRule (declarative) over all committee shapes,
   commitment multisets/orders and processing placements within the bound;
2. replay: one behaviour per distinct (operation, resulting model state) pair is executed on the real Pool (plain and with a
   CBOR round-trip after every call, as the roothash application stores it); differences from PoolOp are MODEL-DRIFT;
3. verdict: the real outcomes of every drifting behaviour, of every k-th other behaviour and of seeded random rounds with
   larger committees (<=5 primary, <=4 backup, 3 results) are validated by TLC against TracePoolRule (rule only).
"""
import json

import vlib


def run(ctx):
    q = ctx.quick()
    ctx.assumptions += [
        "commitments reach the pool already verified (signature, RAK, header sanity); a scheduler never submits a failure for itself",
        "the declarative rule reads 'present' as agreeing votes: at least |primary| - stragglers primary votes equal the result",
        "replayed behaviours: committees <=3 primary / <=3 backup with overlaps, <=4 add calls, <=3 processing calls",
    ]
    if ctx.replay:
        with open(ctx.replay) as f:
            rp = json.load(f)["replay"]
        lines = [json.dumps(e) + "\n" for e in rp["trace"]]
        rej, nv, nev = vlib.validate_traces(ctx, ("roothash",), "TracePoolRule", "tracerule.cfg", lines)
        for seg in rej:
            vlib.report(ctx, "replayed trace still breaks PoolRule: %s" % seg["why"], {"trace": seg["events"]}, {"class": seg["why"]})
        ctx.coverage.update(states=1, transitions=1, traces_validated_against_impl=nv, samples=[rp])
        return

    d = vlib.copy_specs(ctx, "roothash")
    res = vlib.run_tlc(ctx, d, "MCPoolOp", "design_quick.cfg" if q else "design_thorough.cfg", timeout=3000)
    vlib.tlc_must_pass(ctx, res, "design run PoolOp => PoolRule")
    ctx.log("design: %d generated, %d distinct" % (res.generated, res.distinct))
    ctx.coverage.update(states=res.distinct, transitions=res.generated, exhaustive=True)

    # replay + record
    d = vlib.copy_specs(ctx, "roothash")
    summ_path, trace_path = ctx.path("pool-sum.json"), ctx.path("pool-trace.ndjson")
    vh = vlib.popen_vh(["pool-replay", "-in", "-", "-out", summ_path, "-trace", trace_path, "-every", "5" if q else "10"])
    gres = vlib.run_tlc(ctx, d, "MCPoolOp", "gen_quick.cfg" if q else "gen_thorough.cfg", timeout=3000, sink=vh.stdin)
    vh.stdin.close()
    if vh.wait() != 0:
        raise vlib.Infra("pool-replay failed")
    vlib.tlc_must_pass(ctx, gres, "behaviour generation")
    summ = json.load(open(summ_path))
    if summ["behaviours"] != gres.emitted or not gres.emitted:
        raise vlib.Infra("emitted %d, replayed %d" % (gres.emitted, summ["behaviours"]))
    ctx.log("replay: %d behaviours, %d ops, %d differ from PoolOp, %d panics" % (
        summ["behaviours"], summ["ops"], summ["op_mismatches"], summ["panics"]))
    for m in (summ["mismatches"] or [])[:5]:
        line = "MODEL-DRIFT property=C11 real pool differs from PoolOp at step %d of %s" % (m["step"], json.dumps(m["behaviour"]["ops"])[:300])
        ctx.drift.append(line)
        print(line)

    lines = open(trace_path).readlines()
    rej, nv, nev = vlib.validate_traces(ctx, ("roothash",), "TracePoolRule", "tracerule.cfg", lines)
    ctx.log("rule traces from replay: %d valid, %d rejected, %d events" % (nv, len(rej), nev))

    ntr = 3000 if q else 60000
    tp = ctx.path("rand.ndjson")
    vlib.run_vh(ctx, ["pool-trace", "-seed", str(ctx.seed), "-n", str(ntr), "-out", tp])
    rlines = open(tp).readlines()
    rej2, nv2, nev2 = vlib.validate_traces(ctx, ("roothash",), "TracePoolRule", "tracerule.cfg", rlines)
    ctx.log("rule traces from random driver: %d valid, %d rejected, %d events" % (nv2, len(rej2), nev2))
    for seg in rej + rej2:
        vlib.report(ctx, "real commitment pool outcome not permitted by PoolRule (%s): %s" % (seg["why"], seg["failing_event"]),
                    {"trace": seg["events"]}, {"class": seg["why"]})

    # self-test
    cp = ctx.path("corrupt.ndjson")
    vlib.run_vh(ctx, ["pool-trace", "-seed", str(ctx.seed), "-n", "60", "-corrupt", "20", "-out", cp])
    rej3, _, _ = vlib.validate_traces(ctx, ("roothash",), "TracePoolRule", "tracerule.cfg", open(cp).readlines(), max_rounds=1)
    if not rej3:
        raise vlib.Infra("self-test failed: forged finalization accepted by TracePoolRule")
    finals = sum(1 for ln in rlines if '"ret":"final"' in ln)
    ctx.coverage.update(
        replayed_behaviours=summ["behaviours"], replay_ops=summ["ops"], drift=summ["op_mismatches"], panics=summ["panics"],
        ret_counts=summ["ret_counts"], traces_validated_against_impl=nv + nv2, trace_events=nev + nev2,
        random_rounds=ntr, random_finalizations=finals, selftest_forged_final_rejected=True,
        samples=summ["samples"][:2])
