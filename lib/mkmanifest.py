#!/usr/bin/env python3
"""Regenerates /verif/MANIFEST.json from the table below (single source of truth for check registration)."""
import json
import os

VERIF = os.path.dirname(os.path.dirname(os.path.abspath(__file__)))

BASELINE_OFF = ("for m in $(cat /w/out/gomods.txt); do MF=$(cd /repo/$m && . /w/out/goenv.sh && gomodflag); "
                "(cd /repo/$m && go test $MF -json -vet=off -count=1 -timeout 25m ./...); done")

# id -> (technique, level text, level note, design ref)
LEDGER_NOTE = ("Trusted: TLC, JSON bridge, the harness's read-only projection through exported state readers (no hook). "
               "Amounts < 2^31. Scenarios: staking methods, node registration / unfreeze / hand-over / key theft, runtime registration "
               "and governance-model transitions, compute-role node updates, entity deregistration, governance proposals and votes, "
               "executor commitments, runtime equivocation evidence, incoming runtime messages, entity descriptors, vault methods, VRF "
               "proofs (also stale ones), structurally mutated bodies under authentic signatures, upgrade and cancel-upgrade proposals, nodes "
               "without the validator role, consensus feature version 26.1 on for even seeds; insecure and VRF beacon backends. Key-manager methods, "
               "governance messages emitted by runtimes and TEE runtimes are not generated (staking messages of runtimes are).")

CHECKS = {
    "C04": (
        "MkvsProof.tla (transcribed proof builders, verifyProof and remote-backed reader) checked by TLC against the declarative "
        "rule MkvsProofRule.tla for all small trees, queries and single/pair mutations; every emitted (tree, query, mutation) case "
        "replayed on the real SyncGet/SyncIterate/SyncGetPrefixes + VerifyProof + remote-backed trees; outcomes validated by TLC "
        "(TraceProof.tla, rule only)",
        "Exhaustive TLC check of completeness of honest proofs and soundness of every accepted mutated proof under a perfect-hash "
        "assumption (both proof versions, siblings on/off); one real execution per honest (contents, query) and per distinct "
        "(contents, mutated proof, kind), on no-db/badger/pathbadger trees and on remote readers with ample, tight and tiny "
        "caches fed by a corrupting peer; an accepted proof or a remote read that answers anything but the truth is a violation.",
        "Trusted: TLC, JSON bridge, SHA-512/256. Structural mutations (thorough: plus single-byte variants of the touched entry); "
        "keys <= 3 bytes. One open known finding (remote reader with node cache below the path depth).",
        "DESIGN.md R.7 C04"),
    "C12": (
        "Checkpoint.tla (both chunkers; restore machine with multipart state of both backends, aborts, crashes at H1 points, "
        "one in-flight caller) checked by TLC against the declarative rule with named excuses, each shown necessary by a "
        "counterexample run; one scenario per distinct (abstract state, last operation) replayed on real checkpoint creation / "
        "restorer / NodeDB multipart insert; rule verdicts by TLC on recorded outcomes (TraceCheckpoint.tla)",
        "Exhaustive TLC check that chunk lists cover the tree and every chunk is a root-anchored proof for all small trees, chunk "
        "sizes and thread counts, and of the restore machine for all schedules in the bound; the real code creates each checkpoint "
        "(twice and on the other backend), restores it under permutations, duplicates, concurrent and gated callers, corrupted "
        "chunks, AbortRestore/AbortMultipartInsert and child-process deaths at every multipart hook point, then reads everything "
        "back; TLC evaluates only the rule on what was observed; seeded trees up to thousands of keys.",
        "Trusted: TLC, JSON bridge, hook H1. Process death, not power loss. Ten open known findings, each matched by (backend, "
        "clause, history shape); any other broken clause alarms.",
        "DESIGN.md R.7 C12"),
    "C16": (
        "MkvsWire.tla (transcribed storage decoders as a byte-level parser) generates every small encoding with every single "
        "structural mutation; cases and seeded mutation neighbourhoods are fed to the real decoders/verifiers under panic, "
        "deadline and allocation guards; structural sweeps of valid quotes, collateral, reports, descriptors, commitments and "
        "protocol frames; HostProto.tla (runtime host protocol connection vs. a misbehaving runtime) checked by TLC and its scripts "
        "replayed on the real connection; hostile transaction bytes are delivered to live multiplexers, and every single structural "
        "mutation of the body of every generated transaction kind, correctly signed, goes through CheckTx and EstimateGas",
        "Grammar-derived exhaustive boundary cases (TLC) plus seeded random neighbourhoods on ten decode/verify entry points; "
        "accept/reject of node.UnmarshalBinary is compared with the transcription (drift), every entry point must terminate "
        "without panic, hang or allocation blow-up.",
        "Decides the property on generated inputs only (grammar-derived cases, structural sweeps, model-derived frame scripts); no "
        "coverage-guided fuzzing. The host protocol model covers responses, cancellation, a stalled peer and Close, not requests "
        "from the runtime to the host beyond the handshake. Trusted: TLC, JSON bridge.", "DESIGN.md 4 C16, R.9"),
    "C17": (
        "Registry.tla (admission check + key-index update of node registration) checked by TLC; one behaviour per distinct "
        "(pre-state, operation) pair replayed on the real registry application; K1-K5/A1 evaluated by TLC (TraceRegistry.tla) on "
        "registry and staking state recorded after every block of real multiplexer runs",
        "Exhaustive TLC check of K1/K2 for the transcribed index maintenance over all histories of two nodes and seven "
        "interchangeable keys (incl. rotations and exchanges of a node's own keys), every model transition executed by the real "
        "RegisterNode handler with NodeBySubKey compared for every key, and trace validation of key uniqueness, findability, "
        "index mirrors, claim mirrors and authority failures on real chains.",
        LEDGER_NOTE + " Consensus keys not rotated.", "DESIGN.md 4 C17"),
    "C14": (
        "Election.tla (transcribed validator election) and Committee.tla (transcribed runtime committee election) checked by TLC "
        "against the declarative rules for all small registries, descriptors, tie-breaks and permutations; real elections "
        "(validators and committees) recorded by probe applications placed around the scheduler and validated by TLC "
        "(TraceElection.tla)",
        "TLC recomputes eligibility from the raw registry/staking records the election read (roles, expiration, freeze status, "
        "escrow vs. the thresholds of all stake claims) and checks membership, limits, stake order, power monotonicity and that the "
        "validator updates turn the previous set into the elected one, and for every runtime committee: members eligible (role, "
        "runtime version, expiry, freeze, suspension, entity stake, validator-set constraint), exact sizes or no committee, MaxNodes "
        "per entity, MinPoolSize, no duplicates, no stale committee - for every election of seeded runs on real multiplexers "
        "(epoch changes and post-slashing re-elections, binding validator-count and per-entity limits, tied stakes).",
        LEDGER_NOTE + " Committee elections on both beacon backends (entropy path and VRF proofs); the election input is recorded "
        "before the scheduler's BeforeSchedule notification (roothash liveness processing is idle in the scenarios).",
        "DESIGN.md 4 C14, R.9"),
    "C01": (
        "Replica.tla (proposal cache of the ABCI multiplexer) checked by TLC; TLC-emitted path-assignment rows drive seeded block "
        "histories on 4 real multiplexers (both backends, restarts from disk); recorded per-height results validated by TLC "
        "(TraceReplica.tla)",
        "Exhaustive TLC check that along every assignment of execution paths each replica reports Exec(own state, decided block); "
        "all 192 distinct path rows are replayed on real replica networks over random block histories; TLC accepts a run only if "
        "state root, every transaction result and the validator-update set agree on all replicas at every height.",
        LEDGER_NOTE + " Consensus-connection calls sequential per replica; CheckTx / EstimateGas / state queries run free in "
        "goroutines during block execution (not during Commit).", "DESIGN.md 4 C01"),
    "C10": (
        "Scenario driver on real multiplexers with every ABCI call under recover(); recorded life cycle validated by TLC "
        "(TraceReplica.tla clauses C10); Replica.tla design run",
        "Seeded adversarial block histories (failing/malformed/junk/replayed transactions, all validators absent, evidence "
        "against known and unknown validators, lapsing and frozen nodes, coinciding rewards/fees/debonding at epoch boundaries) "
        "on 4 real replicas; TLC rejects a run containing a panic, a PrepareProposal failure or a rejected honest proposal.",
        LEDGER_NOTE + " The documented precondition (one stake-eligible validator) is kept by the driver.", "DESIGN.md 4 C10"),
    "C18": (
        "Attest.tla (regions Orig/Mut, time boundary points, policies, collateral choice; Verify transcribing the order of checks) "
        "checked by TLC against the declarative acceptance rule; emitted cases concretised as bit/byte mutations of the real SGX/TDX "
        "vectors and replayed on QuoteBundle.Verify; outcomes validated by TLC (TraceAttest.tla, rule only)",
        "Exhaustive TLC check of the decision-table model (all region subsets <= 2 x time points x policies x collateral choices); "
        "every abstract case is executed on the repository's known-good quotes and collateral (quick: a few bytes per region; "
        "thorough: every single bit plus field-aware patterns); a violation is an acceptance the rule forbids or a mutant accepted "
        "with different identity / report data.  Quoting Enclave identity leg (TraceQE.tla): the QE report of each vector with one bit "
        "of MISCSELECT / ATTRIBUTES / MRSIGNER / ISVPRODID flipped or another ISVSVN through the exported TCBBundle.Verify: a change "
        "in a bit bound by the signed identity is never accepted.",
        "Trusted: TLC, JSON bridge, Intel's signatures on the vectors. No freshly signed quotes can be produced: soundness is "
        "explored through mutations of the known-good vectors only. One open known finding (FMSPC blacklist letter case).",
        "DESIGN.md 4 C18"),
    "C05": (
        "Ledger.tla rule (conservation, share sums, supply monotone) evaluated by TLC (TraceLedger.tla) on states recorded "
        "after BeginBlock, every DeliverTx and EndBlock of seeded scenarios on real multiplexers; LedgerModel.tla design run",
        "TLC checks the operational ledger model against the rule for all small-integer histories, and validates traces of real "
        "4-replica networks (every staking method valid/invalid in each respect, epoch transitions with rewards, fee disbursement, "
        "debonding, evidence-driven slashing, vote patterns): every recorded state must satisfy I1, I2, A1.",
        LEDGER_NOTE, "DESIGN.md 4 C05"),
    "C08": (
        "TraceLedger.tla clauses C08 evaluated by TLC on raw key-level snapshots taken around every DeliverTx of real "
        "multiplexer runs (hook-free, through ApplicationState.NewContext)",
        "For every failed transaction of the scenarios the set of changed raw keys of the whole consensus state and the decoded "
        "ledger before/after are recorded; TLC accepts the trace only if a transaction that failed after authentication changed "
        "exactly the signer's account (nonce+1, balance-fee) and one rejected earlier changed nothing.  Vault scenarios: VaultOps.tla "
        "stepped along the recorded transactions (TraceVault.tla); a failed transaction that changed the vault state is reported here; "
        "Vault.tla design run (quota, authority, suspension, nonce statements).",
        LEDGER_NOTE, "DESIGN.md 4 C08"),
    "C09": (
        "TraceLedger.tla clauses C09 evaluated by TLC on real multiplexer runs with concretised signatures (valid, bit-flipped, "
        "other chain, other domain, replays, junk) and the harness's independent Ed25519/nonce verdict per submission",
        "TLC accepts a recorded run only if every transaction that took effect had a valid signature for this chain and domain "
        "and the account's current nonce, advanced exactly that nonce by one, and no signed byte string took effect twice "
        "(executed-id set kept across blocks and replica restarts), and unauthentic or undecodable bytes executed on no replica on any "
        "execution path (result codes of the proposing / validating / replaying / restarted replicas per transaction).",
        LEDGER_NOTE + " Ed25519 / SHA-512/256 trusted.", "DESIGN.md 4 C09"),
    "C15": (
        "LedgerModel.tla (exact floor arithmetic) checked by TLC against the fairness clauses F1-F5; pool behaviours replayed on "
        "the real staking.SharePool / SlashEscrow; F1-F6 evaluated by TLC on states recorded from real multiplexers",
        "Exhaustive small-integer check of the transcribed pool arithmetic against the declarative inequalities, one replayed "
        "behaviour per distinct (pool operation, state) pair on the real SharePool, and trace validation of deposits, reclaims, "
        "rewards, slashing and debonding completion on real chains.",
        LEDGER_NOTE + " F4 is per step for the acting account.", "DESIGN.md 4 C15"),
    "C19": (
        "Stateless.tla (canonical chain, provider responses with per-field Orig/Altered/FromHeight, caches) checked by TLC; emitted "
        "(request, alteration) cases concretised on the real verification functions (hook H2) and a real stateless Core; outcomes "
        "validated by TLC against TraceStateless.tla (rule only)",
        "Exhaustive TLC check of the operational model against the declarative rule for 3-4 heights, all single and double "
        "alterations and request orders <= 4-5; every emitted case is executed on the recorded mainnet vectors and synthetic chains "
        "(field-level, and byte-level wire mutants in the thorough tier), transaction proofs for every list size 0..16 and index; "
        "a violation is an accepted response whose semantic projection differs from the canonical one, an honest response rejected, "
        "a cache holding a non-canonical value, or a panic.",
        "Trusted: TLC, JSON bridge, hook H2 (export wrappers). Verification functions, caches and a Core over a pre-populated light "
        "store; not the live light client / P2P provider. Four open known findings are components no CometBFT header hash covers.",
        "DESIGN.md 4 C19"),
    "C06": (
        "NodeDB.tla contract model checked by TLC; one history per distinct (operation, state) pair replayed on real badger and "
        "pathbadger with full read-back after every step, plus a full reader at every durable-write point (hook H1)",
        "Exhaustive TLC exploration of the contract model (versions 0..3, <=2 candidates per version and type, both root types, "
        "same-version chains, pruning lag; a line of versions over three keys); every emitted history is executed on both real "
        "backends, on trees re-opened from the database and on long-lived tree objects, and every retained finalized "
        "root, pending candidate and still-claimed discarded candidate is read back completely after every operation and at every "
        "intermediate durable state inside Commit/Finalize/Prune; sampled histories that prune also run on disk with Restart and "
        "Compact as stuttering steps (six foreign restarts, compaction, read-back) after the first prune and at the end.",
        "Trusted: TLC, JSON bridge, hook H1 placement. Well-formed API use only; declined operations are observations. Three open "
        "known findings, all on the legacy badger backend, are matched by backend + sharing/chain diagnostics; anything on "
        "pathbadger or outside those shapes alarms.",
        "DESIGN.md 4 C06"),
    "C07": (
        "NodeDBCrash.tla enumerates (history, interrupted operation, durable step) triples; each is executed in a child process that "
        "dies at the H1 hook point; the parent reopens, reads back, retries and continues, with the model's pre/post states as oracle",
        "Fault enumeration driven by the model: every durable-write point of Commit, Finalize and Prune on both backends, composed "
        "with TLC-enumerated preceding histories; after the crash the finalized state must equal the model's state before or after the "
        "operation (full read-back), the retry must reach the post-state and the rest of the history must run correctly.",
        "Trusted: TLC, JSON bridge, hook H1 (names checked against the spec's step lists in both directions). Process death, not "
        "power loss; no crash inside one Badger flush; multipart restore crash points are judged by the C12 check.",
        "DESIGN.md 4 C07"),
    "C13": (
        "WriteLog.tla (coalesced log, apply, single corruptions) checked by TLC; TLC-enumerated cases replayed on real "
        "NodeDB.GetWriteLog and storage RootCache.Apply on badger and pathbadger with TLC's accept/reject verdict as oracle",
        "Exhaustive TLC check of the log algebra; every distinct (initial contents, batch, last op) case with every single "
        "corruption of its log, and every batch HISTORY over a two-key universe (remove / re-insert / remove inside one batch), is "
        "executed against the real databases: the served log must reproduce r2, and Apply must persist exactly when TLC says the "
        "corrupted log still yields the announced contents, leaving no root visible otherwise; every fourth case also builds two "
        "pending candidates of one version that converge on one root of the next and judges every log served for the four pairs.",
        "Trusted: TLC, JSON bridge, C02 (contents equality = root equality). A GetWriteLog error for two different consecutive "
        "roots is judged: one open known finding (pathbadger refuses pairs whose batch rewrites a key with its old value), "
        "anything else alarms; r1 = r2 refusals are OBSERVATION lines. "
        "Single corruptions only; small key/value universe; batch histories over two keys.",
        "DESIGN.md 4 C13"),
    "C02": (
        "TLC checks the transcribed insert/remove (MkvsTrie.tla) against the canonical trie of the contents for all histories; "
        "TLC-emitted behaviours replayed on real trees (3 backends, cache classes) comparing the real root with the hash formula "
        "recomputed over the spec's shape; (contents, root) bijection validated by TLC (TraceRoots.tla)",
        "Exhaustive TLC check that the bit-level transcription of doInsert/doRemove is canonical for every history over an "
        "adversarial key universe; every distinct (operation, model state) pair plus random deep histories replayed on real trees "
        "with commits/reopens, the real root compared after every operation; tight-cache runs alternate with read-before-write runs "
        "that end in a churn suffix (read / remove / commit / re-insert / commit rounds); all recorded (contents, root) pairs must form a bijection.",
        "Trusted: TLC, JSON bridge, SHA-512/256 collision resistance. Keys <= 3 bytes, values <= 2 bytes. Value-cache limits are "
        "exercised under C03.",
        "DESIGN.md 4 C02"),
    "C03": (
        "Ordered-map + overlay-stack model (Mkvs.tla) checked by TLC; transition-covering and random behaviours replayed on real "
        "trees/overlays with every read compared after every operation; random-driver traces validated by TLC (TraceMkvs.tla)",
        "The model is the oracle (the property is a refinement). Every distinct (operation, model state) pair up to overlay depth 2-3 "
        "and random 40-step behaviours are executed on no-db/badger/pathbadger trees with ample, tight, tiny node caches and a "
        "1-byte value cache; Get of every key, Seek+Next from every position and a full iteration are compared after every step, "
        "also for the second object of an Overlay.Copy while both are alive (ofork / fins / frem); "
        "random traces over larger alphabets are accepted by TLC only if every answer is the model's.",
        "Trusted: TLC, JSON bridge. Non-nil values; no mutation during iteration; two open known findings (value-cache eviction of "
        "an embedded leaf under a dirty parent; node cache <= path depth) are matched narrowly and everything else still alarms.",
        "DESIGN.md 4 C03"),
    "C11": (
        "TLC proves PoolOp.tla (transcription of commitment.Pool) => PoolRule.tla (declarative rule); transition-covering "
        "behaviours replayed on the real Pool; real outcomes validated by TLC against TracePoolRule.tla (rule only); executor "
        "commitments submitted as transactions to the real roothash application on live multiplexers and every emitted runtime "
        "block judged by TLC with the same rule (TraceRoothash.tla)",
        "Exhaustive TLC check of the operational model against the declarative rule for committees <=3+3 with overlapping roles, "
        "stragglers 0..2, all orders of <=5 commitments and processing calls with/without timeout; every distinct (operation, "
        "model state) pair replayed on the real pool (plain and CBOR round-tripped); the verdict comes from TLC evaluating the "
        "rule on recorded real outcomes, including random rounds with committees beyond the design bound; at the application "
        "level every Normal / RoundFailed / EpochTransition / Suspended block of seeded scenarios (members and non-members, "
        "schedulers of every rank, dissent, failures, stale rounds, timeouts, discrepancy resolution) must be permitted by the rule, "
        "accepted commitments must pass AcceptOK, and no expired round timer may be left armed.",
        "Trusted: TLC, JSON bridge. Pool level: commitments are pre-verified; 'present' read as agreeing votes. Application "
        "level: no TEE runtimes, no runtime messages, no slashing for incorrect results, liveness evaluation idle; committees "
        "of at most 3 primary and 2 backup workers.",
        "DESIGN.md 4 C11"),
    "C20": (
        "TLA+ reference model (TxPool.tla) checked by TLC; TLC-emitted transition-covering behaviours replayed on the real "
        "main queue at three uint64 bases; random traces with priority ties validated by TLC (TraceTxPool.tla)",
        "Exhaustive TLC exploration of the reference model's finite state graph (2 senders, window 0..3, capacity<=3, <=4 adds); "
        "one replayed behaviour per distinct (operation, resulting model state) pair, compared after every operation with the "
        "real queue (add result, schedule sequence, contents, size); random tie-heavy traces must be behaviours of the model.",
        "Trusted: TLC, the JSON bridge, hook H3 (export wrapper). State sequence numbers never regress; unique tx hashes; "
        "bounded windows mapped to bases 0, 2^63-k, 2^64-1-k.",
        "DESIGN.md 4 C20"),
}

NOT_YET = {}

ALL = ["C%02d" % i for i in range(1, 21)]


def main():
    checks = []
    for pid in ALL:
        if pid not in CHECKS:
            continue
        tech, text, note, ref = CHECKS[pid]
        checks.append({
            "property_id": pid,
            "quick_cmd": "bin/check %s --tier quick" % pid,
            "thorough_cmd": "bin/check %s --tier thorough" % pid,
            "evidence_file": "/verif/evidence/%s.json" % pid,
            "replay_cmd_template": "bin/check %s --replay {path}" % pid,
            "engine": "tlc+vh",
            "level_claimed": {"category": "model_checking", "text": text, "design_ref": ref},
            "level_note": note,
            "technique": tech,
        })
    na = []
    for pid in ALL:
        if pid in CHECKS:
            continue
        na.append({"property_id": pid, "reason": NOT_YET.get(pid, "check not built yet in this round; planned in DESIGN.md section 4")})
    hooks_commits = []
    hp = os.path.join(VERIF, "hooks_commits.txt")
    if os.path.exists(hp):
        hooks_commits = [ln.split()[0] for ln in open(hp) if ln.strip()]
    m = {
        "version": 1,
        "setup_cmd": "lib/build.sh",
        "hooks": {
            "guard": "verif",
            "enable": "go build -tags verif (lib/build.sh builds /verif/harness against /repo/go with the tag on)",
            "baseline_off_cmd": BASELINE_OFF,
            "source_commits": hooks_commits,
            "add_only": True,
        },
        "engines": [
            {"name": "tlc+vh", "path": "/verif/bin/check",
             "serves_properties": [c["property_id"] for c in checks],
             "kind_free_text": "TLA+ specifications under /verif/specs checked by TLC; Go harness /verif/harness (vh) replays "
                               "TLC-emitted behaviours on the real code and records traces that TLC validates"},
        ],
        "checks": checks,
        "not_applicable": na,
        "notes": "See DESIGN.md. Exit 2 from a check means infrastructure failure, never a verdict.",
    }
    with open(os.path.join(VERIF, "MANIFEST.json"), "w") as f:
        json.dump(m, f, indent=1)
    print("MANIFEST.json: %d checks, %d not_applicable" % (len(checks), len(na)))


if __name__ == "__main__":
    main()
